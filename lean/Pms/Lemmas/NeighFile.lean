import Pms.Model.Neigh
import Pms.Lemmas.Basic
import Std.Data.String.ToNat
import Mathlib.Data.List.Basic
import Mathlib.Algebra.Ring.Defs
import Mathlib.Data.Nat.Cast.Defs
import Mathlib.Tactic.Ring

/-! Lemmas about the neighbour file: what `read_neighbors` returns on a rendered frame. -/
namespace Pms.Neigh
open Pms

section File
variable {α : Type} [Sub α] [OfNat α 0] [OfNat α 1] [NatCast α]

/-- what one well-formed data line contributes: (k, values padded to Nmax) -/
def entry (pNum : String → α) (isNl : Bool) (Nmax : ℕ) (toks : List String) : ℕ × List α :=
  (min toks.length Nmax,
   padTo Nmax ((toks.take (min toks.length Nmax)).map (conv pNum isNl)))

theorem readRow_rowLine (pNum : String → α) (isNl : Bool) (Nmax i : ℕ) (toks : List String) :
    Impl.readRow pNum isNl Nmax (rowLine i toks) = (i, entry pNum isNl Nmax toks) := by
  unfold Impl.readRow rowLine entry
  simp only [List.getD_cons_zero, List.getD_cons_succ, Nat.toNat?_repr, Option.getD_some,
    Nat.add_sub_cancel, List.drop_succ_cons, List.drop_zero]
  by_cases h : toks.length ≤ Nmax
  · rw [if_pos h, Nat.min_eq_left h]
  · rw [if_neg h, Nat.min_eq_right (by omega)]

theorem length_renderRows (s : ℕ) (fr : List (List String)) : (renderRows s fr).length = fr.length := by
  induction fr generalizing s with
  | nil => rfl
  | cons a t ih => simp [renderRows, ih]

theorem getD_renderRows (s : ℕ) (fr : List (List String)) (rest : Lines) (i : ℕ) (hi : i < fr.length) :
    (renderRows s fr ++ rest).getD i [] = rowLine (s + i) (fr.getD i []) := by
  induction fr generalizing s i with
  | nil => simp at hi
  | cons a t ih =>
    cases i with
    | zero => simp [renderRows]
    | succ i =>
      simp only [renderRows, List.cons_append, List.getD_cons_succ]
      rw [ih (s + 1) i (by simpa using hi)]
      congr 1; omega

theorem updRow_apply {β : Type} (tbl : ℕ → β) (k : ℕ) (v : β) (j : ℕ) :
    updRow tbl k v j = if j = k then v else tbl j := rfl

theorem readLoop_render (pNum : String → α) (isNl : Bool) (Nmax : ℕ) (fr : List (List String))
    (rest : Lines) (m : ℕ) (hm : m ≤ fr.length) (j : ℕ) :
    Impl.readLoop pNum isNl Nmax (renderRows 0 fr ++ rest) m j =
      if j < m then entry pNum isNl Nmax (fr.getD j []) else (0, List.replicate Nmax 0) := by
  unfold Impl.readLoop
  induction m with
  | zero => simp [foldRange]
  | succ m ih =>
    rw [foldRange_succ]
    simp only
    rw [getD_renderRows 0 fr rest m (by omega), readRow_rowLine, Nat.zero_add]
    rw [updRow_apply]
    by_cases hjm : j = m
    · subst hjm; simp
    · rw [if_neg hjm, ih (by omega)]
      have : (j < m + 1) ↔ (j < m) := by omega
      simp [this]

theorem map_range_getD {β γ : Type} (f : List β → γ) (fr : List (List β)) :
    (List.range fr.length).map (fun j => f (fr.getD j [])) = fr.map f := by
  apply List.ext_getElem
  · simp
  · intro i h1 h2
    have h3 : i < fr.length := by simpa using h2
    simp [List.getD_eq_getElem?_getD, List.getElem?_eq_getElem h3]

theorem le_foldl_max (ks : List ℕ) (a : ℕ) : a ≤ ks.foldl max a ∧ ∀ k ∈ ks, k ≤ ks.foldl max a := by
  induction ks generalizing a with
  | nil => simp
  | cons x t ih =>
    simp only [List.foldl_cons, List.mem_cons]
    refine ⟨le_trans (le_max_left a x) (ih (max a x)).1, ?_⟩
    rintro k (rfl | hk)
    · exact le_trans (le_max_right a k) (ih (max a k)).1
    · exact (ih (max a x)).2 k hk

theorem foldl_max_le (ks : List ℕ) (a b : ℕ) (ha : a ≤ b) (h : ∀ k ∈ ks, k ≤ b) : ks.foldl max a ≤ b := by
  induction ks generalizing a with
  | nil => simpa
  | cons x t ih =>
    simp only [List.foldl_cons]
    exact ih (max a x) (max_le ha (h x List.mem_cons_self)) fun k hk => h k (List.mem_cons_of_mem _ hk)

theorem le_maxCn {ks : List ℕ} {k : ℕ} (h : k ∈ ks) : k ≤ maxCn ks := (le_foldl_max ks 0).2 k h

theorem maxCn_le {ks : List ℕ} {b : ℕ} (h : ∀ k ∈ ks, k ≤ b) : maxCn ks ≤ b :=
  foldl_max_le ks 0 b (Nat.zero_le _) h

theorem take_padTo (l : List α) (w W : ℕ) (h1 : l.length ≤ w) (h2 : w ≤ W) :
    (padTo W l).take w = padTo w l := by
  unfold padTo
  rw [List.take_append, List.take_of_length_le h1, List.take_replicate]
  congr 2
  omega

/-- one call of `read_neighbors` on a rendered frame followed by anything: the expected table and the
handle advanced to exactly what follows -/
theorem readNeighbors_renderTok (pNum : String → α) (hdr : Line) (fr : List (List String))
    (rest : Lines) (Nmax : ℕ) :
    Impl.readNeighbors pNum (renderTok hdr fr ++ rest) fr.length Nmax =
      (Spec.expectedVals Nmax (fr.map fun toks => toks.map (conv pNum (isNeighborList hdr))), rest) := by
  unfold Impl.readNeighbors
  have hf : renderTok hdr fr ++ rest = hdr :: (renderRows 0 fr ++ rest) := rfl
  simp only [hf, List.headD_cons, List.drop_succ_cons, List.drop_zero]
  set isNl := isNeighborList hdr with hisNl
  -- the entries
  have hents : (List.range fr.length).map (Impl.readLoop pNum isNl Nmax (renderRows 0 fr ++ rest) fr.length)
      = fr.map (entry pNum isNl Nmax) := by
    rw [← map_range_getD (entry pNum isNl Nmax) fr]
    apply List.map_congr_left
    intro j hj
    rw [readLoop_render pNum isNl Nmax fr rest fr.length le_rfl j, if_pos (List.mem_range.mp hj)]
  rw [hents]
  -- the width
  have hks : (fr.map (entry pNum isNl Nmax)).map (·.1) = fr.map fun toks => min toks.length Nmax := by
    rw [List.map_map]; rfl
  have hwidth : Spec.width Nmax (fr.map fun toks => toks.map (conv pNum isNl))
      = maxCn (fr.map fun toks => min toks.length Nmax) := by
    unfold Spec.width
    rw [List.map_map]
    congr 1
    apply List.map_congr_left
    intro t _
    simp
  rw [hks]
  set mx := maxCn (fr.map fun toks => min toks.length Nmax) with hmx
  have hmxle : mx ≤ Nmax := maxCn_le (by
    intro k hk
    obtain ⟨t, _, rfl⟩ := List.mem_map.mp hk
    exact Nat.min_le_right _ _)
  -- the remaining handle
  have hrest : (renderRows 0 fr ++ rest).drop fr.length = rest := by
    rw [← length_renderRows 0 fr, List.drop_left]
  rw [hrest]
  congr 1
  -- the rows
  unfold Spec.expectedVals
  have hR : List.map (Spec.expectedRow Nmax mx) (List.map (fun toks => toks.map (conv pNum isNl)) fr)
      = fr.map fun toks => Spec.expectedRow Nmax mx (toks.map (conv pNum isNl)) := by
    rw [List.map_map]; rfl
  rw [hwidth, hR]
  have hrow : ∀ toks ∈ fr,
      ((min toks.length Nmax : ℕ) : α) ::
          padTo mx ((toks.take (min toks.length Nmax)).map (conv pNum isNl))
        = Spec.expectedRow Nmax mx (toks.map (conv pNum isNl)) := by
    intro toks _
    unfold Spec.expectedRow
    simp only [List.length_map, List.map_take]
  have hk_le : ∀ toks ∈ fr, min toks.length Nmax ≤ mx := fun toks ht =>
    le_maxCn (List.mem_map.mpr ⟨toks, ht, rfl⟩)
  by_cases hlt : mx < Nmax
  · rw [if_pos hlt, List.map_map]
    apply List.map_congr_left
    intro toks ht
    simp only [Function.comp, entry]
    have hl : ((toks.take (min toks.length Nmax)).map (conv pNum isNl)).length ≤ mx := by
      rw [List.length_map, List.length_take]
      have := hk_le toks ht
      omega
    rw [take_padTo _ mx Nmax hl hmxle]
    exact hrow toks ht
  · rw [if_neg hlt, List.map_map]
    have hmxeq : mx = Nmax := by omega
    apply List.map_congr_left
    intro toks ht
    simp only [Function.comp, entry]
    rw [← hrow toks ht, hmxeq]

end File
end Pms.Neigh

namespace Pms.Neigh
open Pms

theorem length_idToks (l : List ℕ) : (idToks l).length = l.length := by simp [idToks, idToksOff]

theorem renderRows_eq_map (s : ℕ) (fr : List (List String)) :
    renderRows s fr = (List.range fr.length).map fun i => rowLine (s + i) (fr.getD i []) := by
  induction fr generalizing s with
  | nil => rfl
  | cons a t ih =>
    rw [renderRows, ih (s + 1), List.length_cons, List.range_succ_eq_map, List.map_cons, List.map_map]
    simp only [List.getD_cons_zero, Nat.add_zero, List.cons.injEq, true_and]
    apply List.map_congr_left
    intro i _
    simp only [Function.comp, List.getD_cons_succ]
    congr 1; omega

/-- lines built per particle from `(cn, ids)` with `cn = ids.length` are the rendered frame -/
theorem lines_eq_render (n : ℕ) (cn : ℕ → ℕ) (ids : ℕ → List ℕ) (h : ∀ i < n, cn i = (ids i).length) :
    (header :: (List.range n).map fun i => Nat.repr (i + 1) :: Nat.repr (cn i) :: idToks (ids i))
      = render ((List.range n).map ids) := by
  unfold render renderTok
  rw [renderRows_eq_map]
  simp only [List.length_map, List.length_range, Nat.zero_add, List.cons.injEq, true_and]
  apply List.map_congr_left
  intro i hi
  have hi' := List.mem_range.mp hi
  unfold rowLine
  rw [List.getD_eq_getElem?_getD, List.getElem?_map, List.getElem?_map, List.getElem?_range hi']
  simp only [Option.map_some, Option.getD_some, length_idToks, h i hi']

section Conv
variable {R : Type} [Ring R]

/-- value tokens of a neighbour list are read back as the zero-based indices -/
theorem conv_idToks (pNum : String → R) (hpn : ∀ m : ℕ, pNum (Nat.repr m) = (m : R)) (nb : List ℕ) :
    (idToks nb).map (conv pNum true) = nb.map fun (j : ℕ) => (j : R) := by
  unfold idToks idToksOff conv
  rw [List.map_map]
  apply List.map_congr_left
  intro j _
  simp only [Function.comp, if_true, hpn]
  simp

end Conv

end Pms.Neigh
