import Pms.Model.Neigh
import Pms.Lemmas.Pbc
import Pms.Props.C02
import Mathlib.Data.List.Perm.Basic
import Mathlib.Data.List.Nodup
import Mathlib.Data.List.Range
import Mathlib.Order.Basic
import Mathlib.Algebra.Order.BigOperators.Group.Finset
import Mathlib.Algebra.Order.Ring.Abs
import Mathlib.Tactic.Ring
import Mathlib.Tactic.Linarith

/-! Contracts of `np.argsort` / `np.argpartition` and the list lemmas behind the C05 theorems. -/
namespace Pms.Neigh
open Pms

section Contracts
variable {K : Type} [LinearOrder K]

/-- contract of `l[key[l].argsort()]`: some permutation of `l` sorted by key -/
structure IsArgsort (asort : (ℕ → K) → List ℕ → List ℕ) : Prop where
  perm : ∀ key l, (asort key l).Perm l
  sorted : ∀ key l, (asort key l).Pairwise (fun a b => key a ≤ key b)

/-- contract of `np.argpartition(key, kth)` on `n` keys (numpy docs: the k-th element is in its sorted
position, all smaller elements before it, all larger behind it; `kth < n` or ValueError) -/
structure IsArgpartition (apart : (ℕ → K) → ℕ → ℕ → List ℕ) : Prop where
  perm : ∀ key n k, k < n → (apart key n k).Perm (List.range n)
  part : ∀ key n k, k < n → ∃ A p B, apart key n k = A ++ p :: B ∧ A.length = k ∧
    (∀ a ∈ A, key a ≤ key p) ∧ (∀ b ∈ B, key p ≤ key b)

/-- the first `k+1` entries of a partition are not farther than any later entry -/
theorem IsArgpartition.take_le_drop {apart : (ℕ → K) → ℕ → ℕ → List ℕ} (h : IsArgpartition apart)
    (key : ℕ → K) (n k : ℕ) (hk : k < n) :
    ∀ a ∈ (apart key n k).take (k + 1), ∀ b ∈ (apart key n k).drop (k + 1), key a ≤ key b := by
  obtain ⟨A, p, B, hP, hA, hle, hge⟩ := h.part key n k hk
  have e : apart key n k = (A ++ [p]) ++ B := by simp [hP]
  have hl : (A ++ [p]).length = k + 1 := by simp [hA]
  rw [e, ← hl, List.take_left', List.drop_left'] <;> try rfl
  intro a ha b hb
  rcases List.mem_append.mp ha with ha | ha
  · exact le_trans (hle a ha) (hge b hb)
  · rw [List.mem_singleton] at ha; subst ha; exact hge b hb

/-- the driver's stable merge sort meets the argsort contract -/
theorem sortBy_isArgsort : IsArgsort (K := K) sortBy := by
  refine ⟨fun key l => List.mergeSort_perm _ _, fun key l => ?_⟩
  have := List.pairwise_mergeSort (le := fun a b => decide (key a ≤ key b))
    (fun a b c hab hbc => by
      simp only [decide_eq_true_eq] at *; exact le_trans hab hbc)
    (fun a b => by
      simp only [Bool.or_eq_true, decide_eq_true_eq]; exact le_total _ _) l
  exact this.imp (by intro a b h; simpa using h)

/-- the fully sorted permutation is a valid `argpartition` result for every `kth` -/
theorem apartSort_isArgpartition : IsArgpartition (K := K) apartSort := by
  have hs := sortBy_isArgsort (K := K)
  refine ⟨fun key n k _ => hs.perm key _, fun key n k hk => ?_⟩
  have hlen : (apartSort key n k).length = n := by
    rw [apartSort, (hs.perm key _).length_eq, List.length_range]
  have hsorted := hs.sorted key (List.range n)
  have hk' : k < (sortBy key (List.range n)).length := by
    have := hlen; unfold apartSort at this; omega
  refine ⟨(sortBy key (List.range n)).take k, (sortBy key (List.range n))[k],
    (sortBy key (List.range n)).drop (k + 1), ?_, ?_, ?_, ?_⟩
  · unfold apartSort
    conv_lhs => rw [← List.take_append_drop k (sortBy key (List.range n))]
    rw [List.drop_eq_getElem_cons hk']
  · rw [List.length_take]; omega
  · intro a ha
    have e : sortBy key (List.range n)
        = (sortBy key (List.range n)).take k ++ (sortBy key (List.range n)).drop k :=
      (List.take_append_drop k _).symm
    rw [e] at hsorted
    have := (List.pairwise_append.mp hsorted).2.2 a ha ((sortBy key (List.range n))[k])
      (by rw [List.drop_eq_getElem_cons hk']; exact List.mem_cons_self)
    exact this
  · intro b hb
    have e : sortBy key (List.range n)
        = (sortBy key (List.range n)).take (k+1) ++ (sortBy key (List.range n)).drop (k+1) :=
      (List.take_append_drop (k+1) _).symm
    rw [e] at hsorted
    refine (List.pairwise_append.mp hsorted).2.2 _ ?_ b hb
    have hk2 : k < ((sortBy key (List.range n)).take (k+1)).length := by
      rw [List.length_take]; omega
    have h3 : ((sortBy key (List.range n)).take (k+1))[k] = (sortBy key (List.range n))[k] :=
      List.getElem_take
    rw [← h3]
    exact List.getElem_mem hk2

end Contracts

section Lists
variable {K : Type} [LinearOrder K]

/-- a key-sorted list whose member `i` is strictly closer than every other member starts with `i` -/
theorem sorted_head_eq {key : ℕ → K} {srt : List ℕ} {i : ℕ}
    (hsort : srt.Pairwise (fun a b => key a ≤ key b)) (hi : i ∈ srt)
    (hself : ∀ j ∈ srt, j ≠ i → key i < key j) : ∃ tl, srt = i :: tl := by
  cases srt with
  | nil => simp at hi
  | cons h tl =>
    by_cases hh : h = i
    · exact ⟨tl, by rw [hh]⟩
    · exfalso
      have hit : i ∈ tl := by
        rcases List.mem_cons.mp hi with e | e
        · exact absurd e.symm hh
        · exact e
      have h1 := (List.pairwise_cons.mp hsort).1 i hit
      have h2 := hself h List.mem_cons_self hh
      exact absurd h1 (not_le.mpr h2)

/-- non-strict order + no duplicates + injective keys = strict order -/
theorem strict_of_sorted {key : ℕ → K} {l : List ℕ} {n : ℕ}
    (hsort : l.Pairwise (fun a b => key a ≤ key b)) (hnd : l.Nodup) (hlt : ∀ j ∈ l, j < n)
    (hinj : ∀ a < n, ∀ b < n, key a = key b → a = b) :
    l.Pairwise (fun a b => key a < key b) := by
  have h2 : l.Pairwise (fun a b => key a ≤ key b ∧ a ≠ b) := hsort.and hnd
  refine h2.imp_of_mem ?_
  intro a b ha hb h
  exact lt_of_le_of_ne h.1 fun e => h.2 (hinj a (hlt a ha) b (hlt b hb) e)

/-- `Nnearests` for one centre meets the Spec, for every argpartition/argsort meeting the numpy contracts -/
theorem nnearest0_spec {apart : (ℕ → K) → ℕ → ℕ → List ℕ} {asort : (ℕ → K) → List ℕ → List ℕ}
    (hp : IsArgpartition apart) (hs : IsArgsort asort) (key : ℕ → K) (n N i : ℕ)
    (hi : i < n) (hN : N < n)
    (hinj : ∀ a < n, ∀ b < n, key a = key b → a = b)
    (hself : ∀ j < n, j ≠ i → key i < key j) :
    ∃ L, Impl.nnearestGen N (N + 1) 1 apart asort key n = some L ∧ Spec.IsNNearest key n i N L := by
  unfold Impl.nnearestGen
  rw [if_pos hN]
  refine ⟨_, rfl, ?_⟩
  have hperm := hp.perm key n N hN
  have hle := hp.take_le_drop key n N hN
  generalize apart key n N = P at hperm hle
  have hPnodup : P.Nodup := hperm.nodup_iff.mpr List.nodup_range
  have hPmem : ∀ j, j ∈ P ↔ j < n := fun j => by rw [hperm.mem_iff, List.mem_range]
  have hlenP : P.length = n := by rw [hperm.length_eq, List.length_range]
  have hsplit : P = P.take (N + 1) ++ P.drop (N + 1) := (List.take_append_drop _ _).symm
  have hpart_len : (P.take (N + 1)).length = N + 1 := by rw [List.length_take, hlenP]; omega
  have hpart_sub : ∀ j ∈ P.take (N + 1), j < n := fun j hj => (hPmem j).mp (List.mem_of_mem_take hj)
  have hsp := hs.perm key (P.take (N + 1))
  have hsort := hs.sorted key (P.take (N + 1))
  generalize hpart : P.take (N + 1) = part at *
  generalize asort key part = srt at hsp hsort
  have hmem_or : ∀ j, j < n → j ∈ part ∨ j ∈ P.drop (N + 1) := by
    intro j hj
    have : j ∈ P := (hPmem j).mpr hj
    rw [hsplit] at this
    exact List.mem_append.mp this
  -- the centre is among the N+1 smallest
  have hipart : i ∈ part := by
    rcases hmem_or i hi with h | h
    · exact h
    · exfalso
      obtain ⟨a, ha⟩ : ∃ a, a ∈ part := by
        cases hh : part with
        | nil => rw [hh] at hpart_len; simp at hpart_len
        | cons a _ => exact ⟨a, List.mem_cons_self⟩
      have hai : a ≠ i := by
        intro e; subst e
        have hnd := hPnodup
        rw [hsplit] at hnd
        exact (List.nodup_append.mp hnd).2.2 a ha a h rfl
      have h1 := hle a ha i h
      have h2 := hself a (hpart_sub a ha) hai
      exact absurd h1 (not_le.mpr h2)
  have hisrt : i ∈ srt := hsp.mem_iff.mpr hipart
  obtain ⟨tl, htl⟩ := sorted_head_eq hsort hisrt
    (fun j hj hji => hself j (hpart_sub j (hsp.mem_iff.mp hj)) hji)
  subst htl
  have hsrt_nodup : (i :: tl).Nodup := by
    apply hsp.nodup_iff.mpr
    rw [← hpart]
    exact hPnodup.sublist (List.take_sublist _ _)
  have hitl : i ∉ tl := (List.nodup_cons.mp hsrt_nodup).1
  have htl_nodup : tl.Nodup := (List.nodup_cons.mp hsrt_nodup).2
  have htl_part : ∀ j ∈ tl, j ∈ part := fun j hj => hsp.mem_iff.mp (List.mem_cons_of_mem _ hj)
  have htl_lt : ∀ j ∈ tl, j < n := fun j hj => hpart_sub j (htl_part j hj)
  show Spec.IsNNearest key n i N ((i :: tl).drop 1)
  rw [List.drop_one, List.tail_cons]
  refine ⟨?_, htl_nodup, ?_, ?_, ?_⟩
  · have := hsp.length_eq
    rw [hpart_len, List.length_cons] at this
    omega
  · intro j hj
    exact ⟨htl_lt j hj, fun e => hitl (e ▸ hj)⟩
  · exact strict_of_sorted (List.pairwise_cons.mp hsort).2 htl_nodup htl_lt hinj
  · intro j hj hji hjtl m hm
    have hjpart : j ∉ part := by
      intro h
      have := hsp.mem_iff.mpr h
      rcases List.mem_cons.mp this with e | e
      · exact hji e
      · exact hjtl e
    have hjdrop : j ∈ P.drop (N + 1) := (hmem_or j hj).resolve_left hjpart
    have h1 := hle m (htl_part m hm) j hjdrop
    refine lt_of_le_of_ne h1 fun e => ?_
    have := hinj m (htl_lt m hm) j hj e
    exact hjtl (this ▸ hm)

/-- `cutoffneighbors*` for one centre meets the Spec -/
theorem cutoff0_spec {asort : (ℕ → K) → List ℕ → List ℕ} (hs : IsArgsort asort)
    (key : ℕ → K) (within : ℕ → Bool) (n i : ℕ) (hi : i < n) (hwi : within i = true)
    (hinj : ∀ a < n, ∀ b < n, key a = key b → a = b)
    (hself : ∀ j < n, j ≠ i → key i < key j) :
    Spec.IsCutoffList key (fun j => within j = true) n i (Impl.cutoffGen 1 1 asort key within n).2 ∧
    (Impl.cutoffGen 1 1 asort key within n).1 = (Impl.cutoffGen 1 1 asort key within n).2.length := by
  unfold Impl.cutoffGen
  simp only
  have hsp := hs.perm key ((List.range n).filter within)
  have hsort := hs.sorted key ((List.range n).filter within)
  have hselmem : ∀ j, j ∈ (List.range n).filter within ↔ j < n ∧ within j = true := by
    intro j; rw [List.mem_filter, List.mem_range]
  have hselnodup : ((List.range n).filter within).Nodup := List.nodup_range.filter _
  generalize (List.range n).filter within = sel at *
  generalize asort key sel = srt at hsp hsort
  have hisrt : i ∈ srt := hsp.mem_iff.mpr ((hselmem i).mpr ⟨hi, hwi⟩)
  have hlt : ∀ j ∈ srt, j < n := fun j hj => ((hselmem j).mp (hsp.mem_iff.mp hj)).1
  obtain ⟨tl, htl⟩ := sorted_head_eq hsort hisrt (fun j hj hji => hself j (hlt j hj) hji)
  subst htl
  have hnd : (i :: tl).Nodup := hsp.nodup_iff.mpr hselnodup
  have hitl : i ∉ tl := (List.nodup_cons.mp hnd).1
  rw [List.drop_one, List.tail_cons]
  refine ⟨⟨?_, (List.nodup_cons.mp hnd).2, ?_⟩, ?_⟩
  · intro j
    constructor
    · intro hj
      have h1 := (hselmem j).mp (hsp.mem_iff.mp (List.mem_cons_of_mem _ hj))
      exact ⟨h1.1, fun e => hitl (e ▸ hj), h1.2⟩
    · rintro ⟨hj, hji, hw⟩
      have := hsp.mem_iff.mpr ((hselmem j).mpr ⟨hj, hw⟩)
      rcases List.mem_cons.mp this with e | e
      · exact absurd e hji
      · exact e
  · exact strict_of_sorted (List.pairwise_cons.mp hsort).2 (List.nodup_cons.mp hnd).2
      (fun j hj => hlt j (List.mem_cons_of_mem _ hj)) hinj
  · have := hsp.length_eq
    rw [List.length_cons] at this
    omega

/-- the Spec determines the N-nearest list: two lists meeting it are equal -/
theorem isNNearest_unique {key : ℕ → K} {n i N : ℕ} {L L' : List ℕ}
    (h : Spec.IsNNearest key n i N L) (h' : Spec.IsNNearest key n i N L') : L = L' := by
  -- same members
  have hsub : ∀ {A B : List ℕ}, Spec.IsNNearest key n i N A → Spec.IsNNearest key n i N B → A ⊆ B := by
    intro A B hA hB
    by_contra hne
    -- some a ∈ A \ B; then B ⊆ A \ {a} by `closest`, contradicting the lengths
    obtain ⟨a, haA, haB⟩ : ∃ a, a ∈ A ∧ a ∉ B := by
      by_contra hcon
      exact hne fun x hx => by
        by_contra hxB
        exact hcon ⟨x, hx, hxB⟩
    have hBA : B ⊆ A.erase a := by
      intro b hb
      have hba : b ≠ a := fun e => haB (e ▸ hb)
      by_contra hbA
      have hbA' : b ∉ A := fun hm => hbA ((List.mem_erase_of_ne hba).mpr hm)
      have h1 := hA.closest b (hB.mem b hb).1 (hB.mem b hb).2 hbA' a haA
      have h2 := hB.closest a (hA.mem a haA).1 (hA.mem a haA).2 haB b hb
      exact absurd h1 (not_lt.mpr (le_of_lt h2))
    have hlen := (List.subperm_of_subset hB.nodup hBA).length_le
    rw [List.length_erase_of_mem haA, hA.length, hB.length] at hlen
    have : 0 < N := by
      have := List.length_pos_of_mem haA
      rw [hA.length] at this; exact this
    omega
  have hperm : L.Perm L' :=
    (List.perm_ext_iff_of_nodup h.nodup h'.nodup).mpr fun a => ⟨fun x => hsub h h' x, fun x => hsub h' h x⟩
  have hasymm : ∀ a b, a ∈ L → b ∈ L' → key a < key b → key b < key a → a = b := by
    intro a b _ _ h1 h2; exact absurd h1 (not_lt.mpr (le_of_lt h2))
  exact List.Perm.eq_of_pairwise (le := fun a b => key a < key b) hasymm h.sorted h'.sorted hperm

/-- the cutoff Spec determines the list -/
theorem isCutoffList_unique {key : ℕ → K} {within : ℕ → Prop} {n i : ℕ} {L L' : List ℕ}
    (h : Spec.IsCutoffList key within n i L) (h' : Spec.IsCutoffList key within n i L') : L = L' := by
  have hperm : L.Perm L' :=
    (List.perm_ext_iff_of_nodup h.nodup h'.nodup).mpr fun a => by rw [h.mem a, h'.mem a]
  have hasymm : ∀ a b, a ∈ L → b ∈ L' → key a < key b → key b < key a → a = b := by
    intro a b _ _ h1 h2; exact absurd h1 (not_lt.mpr (le_of_lt h2))
  exact List.Perm.eq_of_pairwise (le := fun a b => key a < key b) hasymm h.sorted h'.sorted hperm

end Lists

section Geometry
variable {K : Type} [Field K] [LinearOrder K] [IsStrictOrderedRing K]
open Finset Pms.Pbc

theorem dist2_nonneg (d : ℕ) (rint : K → ℤ) (H Hinv : ℕ → ℕ → K) (ppp : ℕ → K) (pos : ℕ → ℕ → K)
    (i j : ℕ) : 0 ≤ dist2 d rint H Hinv ppp pos i j := by
  unfold dist2
  simp only [sumRange_eq]
  exact Finset.sum_nonneg fun k _ => mul_self_nonneg _

theorem dist2_self (d : ℕ) (rint : K → ℤ) (hr : IsRintHE rint) (H Hinv : ℕ → ℕ → K) (ppp : ℕ → K)
    (pos : ℕ → ℕ → K) (i : ℕ) : dist2 d rint H Hinv ppp pos i i = 0 := by
  have h0 : rint 0 = 0 := hr.zero 0 (by simp)
  unfold dist2 removePbc vecMul
  simp [sumRange_eq, h0]

/-- the squared minimum-image distance is symmetric (odd symmetry of `remove_pbc`, C02) -/
theorem dist2_symm (d : ℕ) (rint : K → ℤ) (hr : IsRintHE rint) (H Hinv : ℕ → ℕ → K) (ppp : ℕ → K)
    (pos : ℕ → ℕ → K) (i j : ℕ) :
    dist2 d rint H Hinv ppp pos i j = dist2 d rint H Hinv ppp pos j i := by
  unfold dist2
  have e : (fun k => pos j k - pos i k) = (fun k => - (pos i k - pos j k)) := by
    funext k; ring
  simp only [e, C02_odd d rint hr H Hinv ppp]
  simp only [sumRange_eq]
  exact Finset.sum_congr rfl fun k _ => by ring

/-- without ties among the distances from `i`, every other particle is strictly farther than `i` itself -/
theorem self_closest (d : ℕ) (rint : K → ℤ) (hr : IsRintHE rint) (H Hinv : ℕ → ℕ → K) (ppp : ℕ → K)
    (pos : ℕ → ℕ → K) (n i : ℕ) (hi : i < n)
    (hinj : ∀ a < n, ∀ b < n, dist2 d rint H Hinv ppp pos i a = dist2 d rint H Hinv ppp pos i b → a = b) :
    ∀ j < n, j ≠ i → dist2 d rint H Hinv ppp pos i i < dist2 d rint H Hinv ppp pos i j := by
  intro j hj hji
  rw [dist2_self d rint hr]
  refine lt_of_le_of_ne (dist2_nonneg ..) fun e => hji ?_
  exact hinj j hj i hi (by rw [dist2_self d rint hr, ← e])

end Geometry
end Pms.Neigh
