import Pms.Model.Boo
import Pms.Lemmas.Basic
import Mathlib.Analysis.Complex.Norm
import Mathlib.Analysis.Real.Sqrt
import Mathlib.Algebra.Order.BigOperators.Ring.Finset
import Mathlib.Tactic.Positivity
import Mathlib.Tactic.GCongr
import Mathlib.Analysis.SpecialFunctions.Trigonometric.Basic

/-! Helper lemmas for C09: convex combinations of complex vectors, Cauchy–Schwarz, list sums. -/
open Finset
namespace Pms.Boo

/-- the primitives at ℝ / ℂ -/
noncomputable def cOps : Ops ℝ ℂ where
  conj := starRingEnd ℂ
  re := Complex.re
  ofReal := Complex.ofReal
  normSq := Complex.normSq
  sqrt := Real.sqrt
  pi := Real.pi
  ofRat := fun q => (q : ℝ)
  mkC := fun a b => ⟨a, b⟩


/-- |Σ_j a_j z_j|² ≤ Σ_j a_j |z_j|² for a_j ≥ 0, Σ a_j ≤ 1 -/
theorem normSq_comb_le (n : ℕ) (a : ℕ → ℝ) (z : ℕ → ℂ)
    (ha : ∀ j ∈ range n, 0 ≤ a j) (hsum : ∑ j ∈ range n, a j ≤ 1) :
    Complex.normSq (∑ j ∈ range n, (a j : ℂ) * z j) ≤ ∑ j ∈ range n, a j * Complex.normSq (z j) := by
  rw [Complex.normSq_eq_norm_sq]
  have h1 : ‖∑ j ∈ range n, (a j : ℂ) * z j‖ ≤ ∑ j ∈ range n, a j * ‖z j‖ := by
    refine (norm_sum_le _ _).trans (le_of_eq (Finset.sum_congr rfl fun j hj => ?_))
    rw [Complex.norm_mul, Complex.norm_real, Real.norm_eq_abs, abs_of_nonneg (ha j hj)]
  have h2 : (∑ j ∈ range n, a j * ‖z j‖) ^ 2 ≤ (∑ j ∈ range n, a j) * ∑ j ∈ range n, a j * ‖z j‖ ^ 2 := by
    apply Finset.sum_sq_le_sum_mul_sum_of_sq_le_mul _ ha
    · intro j hj; exact mul_nonneg (ha j hj) (sq_nonneg _)
    · intro j _; exact le_of_eq (by ring)
  have h3 : 0 ≤ ∑ j ∈ range n, a j * ‖z j‖ ^ 2 :=
    Finset.sum_nonneg fun j hj => mul_nonneg (ha j hj) (sq_nonneg _)
  have h0 : 0 ≤ ∑ j ∈ range n, a j * ‖z j‖ := Finset.sum_nonneg fun j hj => mul_nonneg (ha j hj) (norm_nonneg _)
  calc ‖∑ j ∈ range n, (a j : ℂ) * z j‖ ^ 2 ≤ (∑ j ∈ range n, a j * ‖z j‖) ^ 2 :=
        pow_le_pow_left₀ (norm_nonneg _) h1 2
    _ ≤ (∑ j ∈ range n, a j) * ∑ j ∈ range n, a j * ‖z j‖ ^ 2 := h2
    _ ≤ 1 * ∑ j ∈ range n, a j * ‖z j‖ ^ 2 := mul_le_mul_of_nonneg_right hsum h3
    _ = ∑ j ∈ range n, a j * Complex.normSq (z j) := by
        rw [one_mul]; exact Finset.sum_congr rfl fun j _ => by rw [Complex.normSq_eq_norm_sq]

/-- a (sub-)convex combination of vectors of squared length ≤ R has squared length ≤ R -/
theorem sumSq_comb_le (L n : ℕ) (a : ℕ → ℝ) (v : ℕ → ℕ → ℂ) (R : ℝ) (hR : 0 ≤ R)
    (ha : ∀ j ∈ range n, 0 ≤ a j) (hsum : ∑ j ∈ range n, a j ≤ 1)
    (hv : ∀ j ∈ range n, ∑ k ∈ range L, Complex.normSq (v j k) ≤ R) :
    ∑ k ∈ range L, Complex.normSq (∑ j ∈ range n, (a j : ℂ) * v j k) ≤ R := by
  calc ∑ k ∈ range L, Complex.normSq (∑ j ∈ range n, (a j : ℂ) * v j k)
      ≤ ∑ k ∈ range L, ∑ j ∈ range n, a j * Complex.normSq (v j k) :=
        Finset.sum_le_sum fun k _ => normSq_comb_le n a (fun j => v j k) ha hsum
    _ = ∑ j ∈ range n, a j * ∑ k ∈ range L, Complex.normSq (v j k) := by
        rw [Finset.sum_comm]; exact Finset.sum_congr rfl fun j _ => by rw [Finset.mul_sum]
    _ ≤ ∑ j ∈ range n, a j * R :=
        Finset.sum_le_sum fun j hj => mul_le_mul_of_nonneg_left (hv j hj) (ha j hj)
    _ = (∑ j ∈ range n, a j) * R := by rw [Finset.sum_mul]
    _ ≤ 1 * R := mul_le_mul_of_nonneg_right hsum hR
    _ = R := one_mul R

/-- Cauchy–Schwarz: |Re Σ_k a_k conj(b_k)| ≤ √(Σ|a_k|²) √(Σ|b_k|²) -/
theorem abs_re_inner_le (L : ℕ) (a b : ℕ → ℂ) :
    |(∑ k ∈ range L, a k * (starRingEnd ℂ) (b k)).re|
      ≤ Real.sqrt (∑ k ∈ range L, Complex.normSq (a k)) * Real.sqrt (∑ k ∈ range L, Complex.normSq (b k)) := by
  have h1 : |(∑ k ∈ range L, a k * (starRingEnd ℂ) (b k)).re| ≤ ∑ k ∈ range L, ‖a k‖ * ‖b k‖ := by
    refine (Complex.abs_re_le_norm _).trans ((norm_sum_le _ _).trans (le_of_eq ?_))
    exact Finset.sum_congr rfl fun k _ => by rw [Complex.norm_mul, Complex.norm_conj]
  have h2 := Real.sum_mul_le_sqrt_mul_sqrt (range L) (fun k => ‖a k‖) (fun k => ‖b k‖)
  simp only [← Complex.normSq_eq_norm_sq] at h2
  exact h1.trans h2

theorem listSum_eq_sum (xs : List ℝ) : listSum xs = xs.sum := by
  induction xs with
  | nil => rfl
  | cons a t ih => simp [listSum, ih]

theorem sum_map_flatMap {γ δ : Type} (xs : List γ) (g : γ → List δ) (F : δ → ℝ) :
    ((xs.flatMap g).map F).sum = (xs.map fun x => ((g x).map F).sum).sum := by
  induction xs with
  | nil => rfl
  | cons a t ih => simp [List.flatMap_cons, ih]

theorem sum_map_filter {γ : Type} (xs : List γ) (p : γ → Bool) (F : γ → ℝ) :
    ((xs.filter p).map F).sum = (xs.map fun x => if p x then F x else 0).sum := by
  induction xs with
  | nil => rfl
  | cons a t ih =>
    by_cases h : p a <;> simp [h, ih]

theorem sum_map_intRange (lo hi : ℤ) (F : ℤ → ℝ) :
    ((intRange lo hi).map F).sum = ∑ k ∈ range (hi - lo).toNat, F (lo + (k : ℤ)) := by
  unfold intRange
  rw [List.map_map]
  generalize (hi - lo).toNat = n
  induction n with
  | zero => simp
  | succ n ih =>
    rw [List.range_succ, List.map_append, List.sum_append, ih, Finset.sum_range_succ]
    simp

end Pms.Boo
