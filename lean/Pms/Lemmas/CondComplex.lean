import Pms.Lemmas.CondSq
import Pms.Lemmas.SqComplex

/-! C13 helpers: the pair model of complex numbers against Mathlib's ℂ. -/
open Finset
namespace Pms.Cond
open Pms
open Pms.Sq (Cx reMulConj phase)

/-- a pair as a complex number -/
def toC (z : Cx ℝ) : ℂ := ⟨z.re, z.im⟩

/-- Σ_i A_i · exp(−i θ_i) over ℂ, θ_i = q·r_i -/
noncomputable def modeC (N : ℕ) (A : ℕ → Cx ℝ) (θ : ℕ → ℝ) : ℂ :=
  ∑ i ∈ range N, toC (A i) * Complex.exp (-(Complex.I * (θ i : ℂ)))

theorem exp_neg_I_re (t : ℝ) : (Complex.exp (-(Complex.I * (t : ℂ)))).re = Real.cos t := by
  have : -(Complex.I * (t : ℂ)) = ((-t : ℝ) : ℂ) * Complex.I := by push_cast; ring
  rw [this, Complex.exp_ofReal_mul_I_re, Real.cos_neg]

theorem exp_neg_I_im (t : ℝ) : (Complex.exp (-(Complex.I * (t : ℂ)))).im = -Real.sin t := by
  have : -(Complex.I * (t : ℂ)) = ((-t : ℝ) : ℂ) * Complex.I := by push_cast; ring
  rw [this, Complex.exp_ofReal_mul_I_im, Real.sin_neg]

theorem cmode_re (N : ℕ) (A : ℕ → Cx ℝ) (θ : ℕ → ℝ) :
    (cmode N A (fun i => Real.cos (θ i)) (fun i => Real.sin (θ i))).re = (modeC N A θ).re := by
  unfold cmode modeC
  simp only [sumRange_eq]
  rw [Complex.re_sum]
  refine Finset.sum_congr rfl fun i _ => ?_
  rw [Complex.mul_re, exp_neg_I_re, exp_neg_I_im]
  simp only [phase, Cx.mul, toC]; ring

theorem cmode_im (N : ℕ) (A : ℕ → Cx ℝ) (θ : ℕ → ℝ) :
    (cmode N A (fun i => Real.cos (θ i)) (fun i => Real.sin (θ i))).im = (modeC N A θ).im := by
  unfold cmode modeC
  simp only [sumRange_eq]
  rw [Complex.im_sum]
  refine Finset.sum_congr rfl fun i _ => ?_
  rw [Complex.mul_im, exp_neg_I_re, exp_neg_I_im]
  simp only [phase, Cx.mul, toC]; ring

end Pms.Cond
