import Pms.Model.AuxIo
import Pms.Gen.Writer
import Pms.Lemmas.Lammps
import Mathlib.Algebra.Order.Field.Basic
import Mathlib.Tactic.Ring
import Mathlib.Tactic.Linarith

/-! Helper lemmas for C19 (header writer / auxiliary readers). -/
set_option linter.unusedSectionVars false
set_option linter.unusedSimpArgs false
set_option linter.unusedTactic false
set_option linter.unusedVariables false
namespace Pms.AuxIo
open Pms Pms.Lammps Pms.Lammps.Impl

/-! ### generic list / Except plumbing -/

theorem mapM_ok_of {ε β γ : Type} (g : β → Except ε γ) (h : β → γ) (l : List β) (hg : ∀ x ∈ l, g x = .ok (h x)) :
    l.mapM g = .ok (l.map h) := by
  induction l with
  | nil => rfl
  | cons a l ih =>
    have h1 := hg a (by simp)
    have h2 := ih (fun x hx => hg x (by simp [hx]))
    simp [h1, h2]

theorem flatMap_congr_mem {β γ : Type} (l : List β) (f g : β → List γ) (h : ∀ x ∈ l, f x = g x) :
    l.flatMap f = l.flatMap g := by
  induction l with
  | nil => rfl
  | cons a l ih =>
    simp only [List.flatMap_cons]
    rw [h a (by simp), ih (fun x hx => h x (by simp [hx]))]

section generic
variable {α : Type} [Add α] [Sub α] [Mul α] [OfNat α 0] [IntCast α] [LT α] [DecidableLT α]

theorem header_length (pr : α → Tok α) (nd : Nat) (f : FrameSpec α) : (Lammps.Spec.header pr nd f).length = 9 := by
  cases h : f.tric <;> simp [Lammps.Spec.header, h]

theorem emitFrame_length (pr : α → Tok α) (nd : Nat) (f : FrameSpec α) :
    (Lammps.Spec.emitFrame pr nd f).length = 9 + f.atoms.length := by
  simp [Lammps.Spec.emitFrame, header_length]

theorem emit_cons (pr : α → Tok α) (nd : Nat) (f : FrameSpec α) (fs : List (FrameSpec α)) :
    Lammps.Spec.emit pr nd (f :: fs) = Lammps.Spec.emitFrame pr nd f ++ Lammps.Spec.emit pr nd fs := by
  simp [Lammps.Spec.emit]

theorem drop_len_add {β : Type} (A B : List β) (i : Nat) : List.drop (A.length + i) (A ++ B) = List.drop i B := by
  induction A with
  | nil => simp
  | cons a A ih => simp [Nat.succ_add]

theorem slice_arith (k N : Nat) : (k + 1) * (N + 9) - (k * N + (k + 1) * 9) = N := by
  have : (k + 1) * (N + 9) = k * N + (k + 1) * 9 + N := by ring
  omega

theorem slice_start (k N : Nat) : (k + 1) * N + (k + 1 + 1) * 9 = (9 + N) + (k * N + (k + 1) * 9) := by ring

/-- the slice `content[n*N + (n+1)*9 : (n+1)*(N+9)]` of a dump file whose frames all have `N` atoms is the block of
atom lines of frame `n` -/
theorem slice_emit (pr : α → Tok α) (nd : Nat) (N : Nat) (fs : List (FrameSpec α))
    (hN : ∀ f ∈ fs, f.atoms.length = N) (n : Nat) (hn : n < fs.length) :
    Impl.pySlice (Lammps.Spec.emit pr nd fs) (n * N + (n + 1) * 9) ((n + 1) * (N + 9))
      = (fs[n]).atoms.map (Lammps.Spec.atomLine pr nd) := by
  induction fs generalizing n with
  | nil => simp at hn
  | cons f fs ih =>
    have hf : f.atoms.length = N := hN f (by simp)
    rw [emit_cons]
    unfold Impl.pySlice
    rw [slice_arith]
    cases n with
    | zero =>
      have hh := header_length pr nd f
      simp only [Nat.zero_mul, Nat.zero_add, Nat.one_mul, List.getElem_cons_zero]
      unfold Lammps.Spec.emitFrame
      rw [List.append_assoc, List.drop_append_of_le_length (by omega)]
      rw [List.drop_of_length_le (by omega), List.nil_append]
      rw [List.take_append_of_le_length (by simp [hf])]
      rw [List.take_of_length_le (by simp [hf])]
    | succ k =>
      have hl : (Lammps.Spec.emitFrame pr nd f).length = 9 + N := by rw [emitFrame_length, hf]
      have hk : k < fs.length := by simpa using hn
      have := ih (fun g hg => hN g (by simp [hg])) k hk
      unfold Impl.pySlice at this
      rw [slice_arith] at this
      rw [slice_start, ← hl, drop_len_add]
      simpa using this

end generic

/-! ### the writer -/
section field
variable {K : Type} [Field K] [LinearOrder K] [IsStrictOrderedRing K]

/-- the regenerated dump-header template renders to C01's nine header lines of the frame it describes -/
theorem render_dump_eq (pr : K → Tok K) (rnd : ℕ → K → K) (nd : ℕ) (hnd : nd = 2 ∨ nd = 3) (d : HeaderData K)
    (atoms : List (AtomSpec K)) (hbb : d.nbb = nd) (hN : d.nparticle = (atoms.length : ℤ)) :
    render pr rnd Gen.Writer.dumpHeader d = Lammps.Spec.header pr nd (Spec.writtenFrame nd rnd d atoms) := by
  rcases hnd with rfl | rfl
  · simp [render, Gen.Writer.dumpHeader, renderLine, renderItem, Lammps.Spec.header, Spec.writtenFrame, hbb, hN,
      Lammps.Spec.coordName, range2]
  · simp [render, Gen.Writer.dumpHeader, renderLine, renderItem, Lammps.Spec.header, Spec.writtenFrame, hbb, hN,
      Lammps.Spec.coordName, range3]

theorem render_data_eq (pr : K → Tok K) (rnd : ℕ → K → K) (d : HeaderData K) :
    render pr rnd Gen.Writer.dataHeader d = Spec.dataHeader pr rnd d := by
  by_cases h : d.nbb = 3 <;>
    simp [render, Gen.Writer.dataHeader, renderLine, renderItem, Spec.dataHeader, h]

theorem writtenFrame_wf (rnd : ℕ → K → K) (nd : ℕ) (d : HeaderData K) (atoms : List (AtomSpec K))
    (hids : (atoms.map (·.id)).Perm ((List.range atoms.length).map fun (k : ℕ) => (k : ℤ) + 1))
    (hadd : "x" ∉ d.addson ∧ "xs" ∉ d.addson ∧ "xu" ∉ d.addson) :
    Lammps.Spec.WF (Spec.writtenFrame nd rnd d atoms) :=
  ⟨hids, by simp [Spec.writtenFrame], hadd⟩

/-! ### HOOMD frames -/

theorem gsdFrame_ok (nd : ℕ) (h : Impl.HFrame K) (pos : List (List K)) (hp : h.position ≠ []) :
    Impl.gsdFrame nd h (pos.map fun r => r.take nd) = .ok (Spec.hoomd nd h pos) := by
  unfold Impl.gsdFrame
  have : (h.position.map fun r => r.take nd).isEmpty = false := by
    cases hq : h.position with
    | nil => exact absurd hq hp
    | cons a l => rfl
  simp only [this]
  rfl

theorem zipWith_hoomd (nd : ℕ) (f : List (Impl.HFrame K)) (dcd : List (List (List K))) :
    List.zipWith (fun (fr : Frame K) p => { fr with positions := p.map fun r => r.take nd })
        (f.map fun h => Spec.hoomd nd h []) dcd
      = List.zipWith (fun h p => Spec.hoomd nd h p) f dcd := by
  induction f generalizing dcd with
  | nil => simp
  | cons h f ih =>
    cases dcd with
    | nil => simp
    | cons p dcd =>
      simp only [List.map_cons, List.zipWith_cons_cons, ih]
      rfl

/-! ### the shared header of the auxiliary readers on an emitted orthogonal frame -/

theorem mask_map_map {β γ : Type} (l : List β) (p : β → Bool) (g : β → γ) :
    Impl.mask (l.map p) (l.map g) = (l.filter p).map g := by
  induction l with
  | nil => rfl
  | cons a l ih =>
    cases h : p a <;> simp [Impl.mask, h, ih]

section frame
variable (pr : K → Tok K) (hpr : ∀ x, toFloat (pr x) = .ok x) (f : FrameSpec K) (hwf : Lammps.Spec.WF f) (rest : Lines K)
include hpr hwf

theorem auxHeader_emit (nd : ℕ) (hnd : nd = 2 ∨ nd = 3) (htr : f.tric = false) (l : Line K) (ls : Lines K)
    (hT : Lammps.Spec.emitFrame pr nd f ++ rest = l :: ls) :
    Impl.auxHeader nd ls = .ok (f.timestep, f.atoms.length, (List.range nd).map (fun i => [f.lo i, f.hi i]),
      [Tok.word "id", Tok.word "type"] ++ ((List.range nd).map fun i => Tok.word (Lammps.Spec.coordName f.style i)) ++ f.extraNames.map .word,
      f.atoms.map (Lammps.Spec.atomLine pr nd) ++ rest) := by
  have hn : ¬ ((f.atoms.length : Int) < 0) := by omega
  rcases hnd with rfl | rfl
  · simp [Lammps.Spec.emitFrame, Lammps.Spec.header, htr] at hT
    obtain ⟨rfl, rfl⟩ := hT
    simp [Impl.auxHeader, readline, pyInt, readBoxRows, fitRow, hpr, hn, range2]
  · simp [Lammps.Spec.emitFrame, Lammps.Spec.header, htr] at hT
    obtain ⟨rfl, rfl⟩ := hT
    simp [Impl.auxHeader, readline, pyInt, readBoxRows, fitRow, hpr, hn, range3]

theorem emitFrame_cons (nd : ℕ) : ∃ l ls, Lammps.Spec.emitFrame pr nd f ++ rest = l :: ls := by
  cases h : f.tric <;> simp [Lammps.Spec.emitFrame, Lammps.Spec.header, h]

theorem scaledNoOrigin_atomLine (nd : ℕ) (len : List K) (a : AtomSpec K) :
    Impl.scaledNoOrigin nd len (Lammps.Spec.atomLine pr nd a) = .ok (Impl.mulRow ((List.range nd).map a.c) len) := by
  unfold Impl.scaledNoOrigin
  rw [sliceFloats_atomLine pr hpr nd a]
  simp [fitRow_of_length]

theorem readCenter_x (mol : ℤ → Option ℤ) (nd : ℕ) (hnd : nd = 2 ∨ nd = 3) (htr : f.tric = false) (hst : f.style = .x) :
    Impl.readCenter nd mol (Lammps.Spec.emitFrame pr nd f ++ rest) = .ok (some (Spec.center nd mol f, rest)) := by
  obtain ⟨l, ls, hT⟩ := emitFrame_cons pr hpr f hwf rest nd
  have hh := auxHeader_emit pr hpr f hwf rest nd hnd htr l ls hT
  rw [hT]
  simp only [Impl.readCenter, hh, ok_bind]
  rcases hnd with rfl | rfl
  · have hra := readAtoms_emit pr 2 f.atoms.length (sliceFloats 2) (fun a => (List.range 2).map a.c)
      (sliceFloats_atomLine pr hpr 2) (by simp) f.atoms (wf_range f hwf) rest (zeros 2 f.atoms.length)
    rw [placed_zeros f hwf] at hra
    simp [hst, Lammps.Spec.coordName, range2, hra, col, subList]
    simp [mask_map_map, Spec.center, Spec.centerIds, Frame.mk.injEq, diag, range2, Function.comp_def]
    intro k hk _
    obtain ⟨a, _, _, ha⟩ := byId_some f hwf k hk
    simp [Lammps.Spec.atId, ha, wrapRow, Lammps.Spec.cart, hst, htr, wrap_eq]
  · have hra := readAtoms_emit pr 3 f.atoms.length (sliceFloats 3) (fun a => (List.range 3).map a.c)
      (sliceFloats_atomLine pr hpr 3) (by simp) f.atoms (wf_range f hwf) rest (zeros 3 f.atoms.length)
    rw [placed_zeros f hwf] at hra
    simp [hst, Lammps.Spec.coordName, range3, hra, col, subList]
    simp [mask_map_map, Spec.center, Spec.centerIds, Frame.mk.injEq, diag, range3, Function.comp_def]
    intro k hk _
    obtain ⟨a, _, _, ha⟩ := byId_some f hwf k hk
    simp [Lammps.Spec.atId, ha, wrapRow, Lammps.Spec.cart, hst, htr, wrap_eq]

theorem readCenter_xu (mol : ℤ → Option ℤ) (nd : ℕ) (hnd : nd = 2 ∨ nd = 3) (htr : f.tric = false) (hst : f.style = .xu) :
    Impl.readCenter nd mol (Lammps.Spec.emitFrame pr nd f ++ rest) = .ok (some (Spec.center nd mol f, rest)) := by
  obtain ⟨l, ls, hT⟩ := emitFrame_cons pr hpr f hwf rest nd
  have hh := auxHeader_emit pr hpr f hwf rest nd hnd htr l ls hT
  have hx := hasWord_map_word (α := K) "x" f.extraNames hwf.names.1
  rw [hT]
  simp only [Impl.readCenter, hh, ok_bind]
  rcases hnd with rfl | rfl
  · have hra := readAtoms_emit pr 2 f.atoms.length (sliceFloats 2) (fun a => (List.range 2).map a.c)
      (sliceFloats_atomLine pr hpr 2) (by simp) f.atoms (wf_range f hwf) rest (zeros 2 f.atoms.length)
    rw [placed_zeros f hwf] at hra
    simp [hst, Lammps.Spec.coordName, range2, hra, col, subList, hx]
    simp [mask_map_map, Spec.center, Spec.centerIds, Frame.mk.injEq, diag, range2, Function.comp_def,
      Lammps.Spec.cart, hst]
  · have hra := readAtoms_emit pr 3 f.atoms.length (sliceFloats 3) (fun a => (List.range 3).map a.c)
      (sliceFloats_atomLine pr hpr 3) (by simp) f.atoms (wf_range f hwf) rest (zeros 3 f.atoms.length)
    rw [placed_zeros f hwf] at hra
    simp [hst, Lammps.Spec.coordName, range3, hra, col, subList, hx]
    simp [mask_map_map, Spec.center, Spec.centerIds, Frame.mk.injEq, diag, range3, Function.comp_def,
      Lammps.Spec.cart, hst]

theorem readCenter_xs (mol : ℤ → Option ℤ) (nd : ℕ) (hnd : nd = 2 ∨ nd = 3) (htr : f.tric = false) (hst : f.style = .xs) :
    Impl.readCenter nd mol (Lammps.Spec.emitFrame pr nd f ++ rest) = .ok (some (Spec.center nd mol f, rest)) := by
  obtain ⟨l, ls, hT⟩ := emitFrame_cons pr hpr f hwf rest nd
  have hh := auxHeader_emit pr hpr f hwf rest nd hnd htr l ls hT
  have hx := hasWord_map_word (α := K) "x" f.extraNames hwf.names.1
  have hxu := hasWord_map_word (α := K) "xu" f.extraNames hwf.names.2.2
  rw [hT]
  simp only [Impl.readCenter, hh, ok_bind]
  rcases hnd with rfl | rfl
  · have hra := readAtoms_emit pr 2 f.atoms.length
      (Impl.scaledNoOrigin 2 [f.hi 0 - f.lo 0, f.hi 1 - f.lo 1])
      (fun a => Impl.mulRow ((List.range 2).map a.c) [f.hi 0 - f.lo 0, f.hi 1 - f.lo 1])
      (scaledNoOrigin_atomLine pr hpr f hwf 2 _) (by simp [range2, Impl.mulRow]) f.atoms (wf_range f hwf) rest
      (zeros 2 f.atoms.length)
    rw [placed_zeros f hwf] at hra
    simp [hst, Lammps.Spec.coordName, range2, hra, col, subList, hx, hxu]
    simp [mask_map_map, Spec.center, Spec.centerIds, Frame.mk.injEq, diag, range2, Function.comp_def]
    intro k hk _
    obtain ⟨a, _, _, ha⟩ := byId_some f hwf k hk
    simp [Lammps.Spec.atId, ha, Impl.addRow, Impl.mulRow, Lammps.Spec.cart, hst, htr, sumRange, Lammps.Spec.hmat]
    constructor <;> ring
  · have hra := readAtoms_emit pr 3 f.atoms.length
      (Impl.scaledNoOrigin 3 [f.hi 0 - f.lo 0, f.hi 1 - f.lo 1, f.hi 2 - f.lo 2])
      (fun a => Impl.mulRow ((List.range 3).map a.c) [f.hi 0 - f.lo 0, f.hi 1 - f.lo 1, f.hi 2 - f.lo 2])
      (scaledNoOrigin_atomLine pr hpr f hwf 3 _) (by simp [range3, Impl.mulRow]) f.atoms (wf_range f hwf) rest
      (zeros 3 f.atoms.length)
    rw [placed_zeros f hwf] at hra
    simp [hst, Lammps.Spec.coordName, range3, hra, col, subList, hx, hxu]
    simp [mask_map_map, Spec.center, Spec.centerIds, Frame.mk.injEq, diag, range3, Function.comp_def]
    intro k hk _
    obtain ⟨a, _, _, ha⟩ := byId_some f hwf k hk
    simp [Lammps.Spec.atId, ha, Impl.addRow, Impl.mulRow, Lammps.Spec.cart, hst, htr, sumRange, Lammps.Spec.hmat]
    refine ⟨by ring, by ring, by ring⟩

/-- one emitted orthogonal frame, followed by anything, is read by the centre reader as exactly `Spec.center` -/
theorem readCenter_emitFrame (mol : ℤ → Option ℤ) (nd : ℕ) (hnd : nd = 2 ∨ nd = 3) (htr : f.tric = false) :
    Impl.readCenter nd mol (Lammps.Spec.emitFrame pr nd f ++ rest) = .ok (some (Spec.center nd mol f, rest)) := by
  cases hst : f.style
  · exact readCenter_x pr hpr f hwf rest mol nd hnd htr hst
  · exact readCenter_xs pr hpr f hwf rest mol nd hnd htr hst
  · exact readCenter_xu pr hpr f hwf rest mol nd hnd htr hst

end frame

/-! ### column readers -/

theorem toFloat_tokVal (t : Tok K) (v : K) (h : Spec.tokVal t = some v) : toFloat t = .ok v := by
  cases t <;> simp [Spec.tokVal, toFloat] at h ⊢ <;> exact h

theorem tokVal_pr (pr : K → Tok K) (hpr : ∀ x, toFloat (pr x) = .ok x) (x : K) : Spec.tokVal (pr x) = some x := by
  have := hpr x
  cases h : pr x <;> simp [h, toFloat, Spec.tokVal] at this ⊢ <;> exact this

theorem atomVals_eq (pr : K → Tok K) (hpr : ∀ x, toFloat (pr x) = .ok x) (nd : ℕ) (a : AtomSpec K) :
    Spec.atomVals nd a = (Lammps.Spec.atomLine pr nd a).map Spec.tokVal := by
  have h1 : ∀ n : ℤ, Spec.tokVal (Tok.int n : Tok K) = some (n : K) := fun _ => rfl
  simp [Spec.atomVals, Lammps.Spec.atomLine, h1, tokVal_pr pr hpr, Function.comp_def]

/-- python `item[c-1]` then `float()` on an emitted atom line is the Spec's column `c` -/
theorem pyItem_column (pr : K → Tok K) (hpr : ∀ x, toFloat (pr x) = .ok x) (nd : ℕ) (a : AtomSpec K) (c : ℤ) (v : K)
    (hc : Spec.column nd a c = some v) :
    (do let t ← Impl.pyItem (Lammps.Spec.atomLine pr nd a) (c - 1); toFloat t) = .ok v := by
  unfold Spec.column at hc
  split at hc
  · rename_i h1
    rw [atomVals_eq pr hpr, List.getElem?_map] at hc
    cases ht : (Lammps.Spec.atomLine pr nd a)[(c - 1).toNat]? with
    | none => rw [ht] at hc; simp at hc
    | some t =>
      rw [ht] at hc
      simp at hc
      have hlt : (c - 1).toNat < (Lammps.Spec.atomLine pr nd a).length := by
        by_contra hge
        rw [List.getElem?_eq_none (by omega)] at ht
        cases ht
      have hidx : pyIndex (Lammps.Spec.atomLine pr nd a).length (c - 1) = .ok (c - 1).toNat := by
        unfold pyIndex
        rw [if_pos (by omega)]
      simp only [Impl.pyItem, hidx, ok_bind, item, ht]
      exact toFloat_tokVal t v hc
  · cases hc

theorem colFloats_atomLine (pr : K → Tok K) (hpr : ∀ x, toFloat (pr x) = .ok x) (nd : ℕ) (cols : List ℤ) (a : AtomSpec K)
    (hc : ∀ c ∈ cols, (Spec.column nd a c).isSome) :
    Impl.colFloats cols (Lammps.Spec.atomLine pr nd a) = .ok (cols.map fun c => (Spec.column nd a c).getD 0) := by
  unfold Impl.colFloats
  apply mapM_ok_of
  intro c hcm
  obtain ⟨v, hv⟩ := Option.isSome_iff_exists.mp (hc c hcm)
  rw [pyItem_column pr hpr nd a c v hv, hv]
  rfl

theorem placeLine_atomLine' (pr : K → Tok K) (nd w N : ℕ) (coords : Line K → Except Err (List K))
    (cs : AtomSpec K → List K) (a : AtomSpec K) (st : Arrays K)
    (hc : coords (Lammps.Spec.atomLine pr nd a) = .ok (cs a)) (hl : (cs a).length = w)
    (hid : 1 ≤ a.id ∧ a.id ≤ N) :
    placeLine w N coords (Lammps.Spec.atomLine pr nd a) st
      = .ok ⟨st.ptype.set (a.id - 1).toNat a.type, st.pos.set (a.id - 1).toNat (cs a)⟩ := by
  have hidx : pyIndex N (a.id - 1) = .ok (a.id - 1).toNat := by
    unfold pyIndex
    rw [if_pos (by omega)]
  unfold placeLine
  rw [hc]
  simp [Lammps.Spec.atomLine, item, toInt, hidx, fitRow_of_length w (cs a) hl]

/-- C01's `readAtoms_emit` with a row width independent of `ndim` and hypotheses only about the atoms of the frame -/
theorem readAtoms_emit' (pr : K → Tok K) (nd w N : ℕ) (coords : Line K → Except Err (List K))
    (cs : AtomSpec K → List K) (atoms : List (AtomSpec K))
    (hc : ∀ a ∈ atoms, coords (Lammps.Spec.atomLine pr nd a) = .ok (cs a)) (hl : ∀ a ∈ atoms, (cs a).length = w)
    (hid : ∀ a ∈ atoms, 1 ≤ a.id ∧ a.id ≤ N) (rest : Lines K) (st : Arrays K) :
    readAtoms w N coords atoms.length (atoms.map (Lammps.Spec.atomLine pr nd) ++ rest) st
      = .ok (placed cs atoms st, rest) := by
  induction atoms generalizing st with
  | nil => rfl
  | cons a as ih =>
    have h1 := placeLine_atomLine' pr nd w N coords cs a st (hc a (by simp)) (hl a (by simp)) (hid a (by simp))
    simp only [List.length_cons, List.map_cons, List.cons_append, readAtoms, readline, h1, ok_bind]
    rw [ih (fun b hb => hc b (by simp [hb])) (fun b hb => hl b (by simp [hb])) (fun b hb => hid b (by simp [hb]))]
    rfl

theorem atId_congr_mem {β : Type} (f : FrameSpec K) (hwf : Lammps.Spec.WF f) (k : ℕ) (hk : k < f.atoms.length)
    (g g' : AtomSpec K → β) (d d' : β) (h : ∀ a ∈ f.atoms, g a = g' a) :
    Lammps.Spec.atId f.atoms k g d = Lammps.Spec.atId f.atoms k g' d' := by
  obtain ⟨a, ha, _, hby⟩ := byId_some f hwf k hk
  simp [Lammps.Spec.atId, hby, h a ha]

theorem readVector_emitFrame (pr : K → Tok K) (hpr : ∀ x, toFloat (pr x) = .ok x) (f : FrameSpec K)
    (hwf : Lammps.Spec.WF f) (rest : Lines K) (cols : List ℤ) (nd : ℕ) (hnd : nd = 2 ∨ nd = 3) (htr : f.tric = false)
    (hc : ∀ a ∈ f.atoms, ∀ c ∈ cols, (Spec.column nd a c).isSome) :
    Impl.readVector nd cols (Lammps.Spec.emitFrame pr nd f ++ rest) = .ok (some (Spec.vector nd cols f, rest)) := by
  obtain ⟨l, ls, hT⟩ := emitFrame_cons pr hpr f hwf rest nd
  have hh := auxHeader_emit pr hpr f hwf rest nd hnd htr l ls hT
  have hra := readAtoms_emit' pr nd cols.length f.atoms.length (Impl.colFloats cols)
    (fun a => cols.map fun c => (Spec.column nd a c).getD 0) f.atoms
    (fun a ha => colFloats_atomLine pr hpr nd cols a (hc a ha)) (by simp) (wf_range f hwf) rest
    (zeros cols.length f.atoms.length)
  rw [placed_zeros f hwf] at hra
  rw [hT]
  simp only [Impl.readVector, hh, ok_bind, hra]
  rcases hnd with rfl | rfl
  · simp [Spec.vector, Frame.mk.injEq, col, subList, diag, range2]
  · simp [Spec.vector, Frame.mk.injEq, col, subList, diag, range3]

theorem bind_ok_split {ε β γ : Type} {x : Except ε β} {g : β → Except ε γ} {v : γ} (h : (x >>= g) = .ok v) :
    ∃ t, x = .ok t ∧ g t = .ok v := by
  cases x with
  | error e => cases h
  | ok t => exact ⟨t, rfl, h⟩

theorem addRowLoop_emit (pr : K → Tok K) (hpr : ∀ x, toFloat (pr x) = .ok x) (nd N : ℕ) (ncol : ℤ)
    (atoms : List (AtomSpec K)) (hid : ∀ a ∈ atoms, 1 ≤ a.id ∧ a.id ≤ N)
    (hc : ∀ a ∈ atoms, (Spec.column nd a (ncol + 1)).isSome) (row : List K) :
    Impl.addRowLoop N ncol (atoms.map (Lammps.Spec.atomLine pr nd)) row
      = .ok (atoms.foldl (fun l a => l.set (a.id - 1).toNat ((Spec.column nd a (ncol + 1)).getD 0)) row) := by
  induction atoms generalizing row with
  | nil => rfl
  | cons a as ih =>
    obtain ⟨v, hv⟩ := Option.isSome_iff_exists.mp (hc a (by simp))
    have hcomb := pyItem_column pr hpr nd a (ncol + 1) v hv
    rw [show ncol + 1 - 1 = ncol by omega] at hcomb
    obtain ⟨t, ht, htv⟩ := bind_ok_split hcomb
    have hi := hid a (by simp)
    have hidx : pyIndex N (a.id - 1) = .ok (a.id - 1).toNat := by
      unfold pyIndex
      rw [if_pos (by omega)]
    have h0 : item (Lammps.Spec.atomLine pr nd a) 0 = .ok (Tok.int a.id) := by
      simp [Lammps.Spec.atomLine, item]
    simp only [List.map_cons, Impl.addRowLoop, h0, ok_bind, toInt, hidx, ht, htv, List.foldl_cons, hv, Option.getD_some]
    exact ih (fun b hb => hid b (by simp [hb])) (fun b hb => hc b (by simp [hb])) _

theorem emit_length (pr : K → Tok K) (nd N : ℕ) (fs : List (FrameSpec K)) (hN : ∀ f ∈ fs, f.atoms.length = N) :
    (Lammps.Spec.emit pr nd fs).length = fs.length * (N + 9) := by
  induction fs with
  | nil => simp [Lammps.Spec.emit]
  | cons f fs ih =>
    rw [emit_cons, List.length_append, emitFrame_length, ih (fun g hg => hN g (by simp [hg])), hN f (by simp)]
    simp only [List.length_cons]
    ring

theorem map_range_getElem? {β γ : Type} (l : List β) (g : β → γ) (d : γ) :
    (List.range l.length).map (fun k => ((l[k]?).map g).getD d) = l.map g := by
  apply List.ext_getElem?
  intro i
  by_cases hi : i < l.length
  · simp [hi, List.getElem?_eq_getElem hi]
  · simp [hi, List.getElem?_eq_none (Nat.le_of_not_lt hi)]

theorem readAdditions_emit (pr : K → Tok K) (hpr : ∀ x, toFloat (pr x) = .ok x) (nd N : ℕ) (ncol : ℕ)
    (f0 : FrameSpec K) (more : List (FrameSpec K))
    (hwf : ∀ f ∈ f0 :: more, Lammps.Spec.WF f ∧ f.atoms.length = N ∧
      ∀ a ∈ f.atoms, (Spec.column nd a ((ncol : ℤ) + 1)).isSome) :
    Impl.readAdditions (ncol : ℤ) (Lammps.Spec.emit pr nd (f0 :: more))
      = .ok (Spec.additions nd ncol N (f0 :: more)) := by
  have hN : ∀ f ∈ f0 :: more, f.atoms.length = N := fun f hf => (hwf f hf).2.1
  have h3 : (Lammps.Spec.emit pr nd (f0 :: more))[3]? = some [Tok.int (N : ℤ)] := by
    rw [emit_cons]
    have := hN f0 (by simp)
    cases htr : f0.tric <;> simp [Lammps.Spec.emitFrame, Lammps.Spec.header, htr, this]
  have hlen := emit_length pr nd N (f0 :: more) hN
  unfold Impl.readAdditions
  simp only [h3, ok_bind, pyInt]
  rw [if_neg (by omega), hlen, Int.toNat_natCast, Nat.mul_div_cancel _ (by omega : 0 < N + 9)]
  rw [mapM_ok_of _ (fun k => (((f0 :: more)[k]?).map (fun f => (List.range N).map fun k =>
      Lammps.Spec.atId f.atoms k (fun a => (Spec.column nd a ((ncol : ℤ) + 1)).getD 0) 0)).getD [])]
  · rw [map_range_getElem? (f0 :: more) (fun f => (List.range N).map fun k =>
      Lammps.Spec.atId f.atoms k (fun a => (Spec.column nd a ((ncol : ℤ) + 1)).getD 0) 0) []]
    rfl
  · intro k hk
    have hk' : k < (f0 :: more).length := List.mem_range.mp hk
    rw [slice_emit pr nd N (f0 :: more) hN k hk', List.getElem?_eq_getElem hk']
    have hf := hwf _ (List.getElem_mem hk')
    rw [addRowLoop_emit pr hpr nd N (ncol : ℤ) _ (by
      have := wf_range _ hf.1
      rw [hf.2.1] at this
      exact this) hf.2.2]
    have hp : ∀ a ∈ ((f0 :: more)[k]).atoms, 1 ≤ a.id := fun a ha => (wf_range _ hf.1 a ha).1
    rw [foldl_set_replicate _ _ _ _ (wf_nodup _ hf.1) hp]
    rfl

/-- the wrapper loop over an emitted trajectory, for any per-frame reader that reads one emitted frame correctly -/
theorem loopFuel_emit (pr : K → Tok K) (nd : ℕ) (step : Lines K → Except Err (Option (Frame K × Lines K)))
    (out : FrameSpec K → Frame K) (P : FrameSpec K → Prop)
    (hstep : ∀ f rest, P f → step (Lammps.Spec.emitFrame pr nd f ++ rest) = .ok (some (out f, rest)))
    (hnil : step [] = .ok none) (fs : List (FrameSpec K)) (hP : ∀ f ∈ fs, P f) (fuel : ℕ)
    (hfuel : (Lammps.Spec.emit pr nd fs).length < fuel) :
    Impl.loopFuel step fuel (Lammps.Spec.emit pr nd fs) = .ok (fs.map out) := by
  induction fs generalizing fuel with
  | nil =>
    obtain ⟨k, rfl⟩ : ∃ k, fuel = k + 1 := ⟨fuel - 1, by omega⟩
    simp [Lammps.Spec.emit, Impl.loopFuel, hnil]
  | cons f fs ih =>
    obtain ⟨k, rfl⟩ : ∃ k, fuel = k + 1 := ⟨fuel - 1, by omega⟩
    have h1 := hstep f (Lammps.Spec.emit pr nd fs) (hP f (by simp))
    have hlen := emitFrame_length_pos pr nd f
    have hk : (Lammps.Spec.emit pr nd fs).length < k := by
      simp only [Lammps.Spec.emit, List.flatMap_cons, List.length_append] at hfuel ⊢
      omega
    have h2 := ih (fun g hg => hP g (by simp [hg])) k hk
    simp only [Lammps.Spec.emit, List.flatMap_cons] at h1 h2 ⊢
    simp [Impl.loopFuel, h1, h2]

/-! ### LAMMPS log -/

theorem indicesFrom_append (p : Line K → Bool) (k : ℕ) (a b : Lines K) :
    Impl.indicesFrom p k (a ++ b) = Impl.indicesFrom p k a ++ Impl.indicesFrom p (k + a.length) b := by
  induction a generalizing k with
  | nil => simp [Impl.indicesFrom]
  | cons l a ih =>
    simp only [List.cons_append, Impl.indicesFrom, List.length_cons]
    rw [ih (k + 1), show k + 1 + a.length = k + (a.length + 1) by omega]
    split <;> simp

theorem indicesFrom_none (p : Line K → Bool) (k : ℕ) (a : Lines K) (h : ∀ l ∈ a, p l = false) :
    Impl.indicesFrom p k a = [] := by
  induction a generalizing k with
  | nil => rfl
  | cons l a ih =>
    simp [Impl.indicesFrom, h l (by simp), ih (k + 1) (fun x hx => h x (by simp [hx]))]

/-- positions of the header lines / terminator lines of consecutive sections starting at line `k` -/
def starts : ℕ → List (Spec.Section K) → List ℕ
  | _, [] => []
  | k, s :: ss => k :: starts (k + (Spec.sectionLines s).length) ss
def ends : ℕ → List (Spec.Section K) → List ℕ
  | _, [] => []
  | k, s :: ss => (k + 1 + s.rows.length) :: ends (k + (Spec.sectionLines s).length) ss

theorem starts_length (k : ℕ) (ss : List (Spec.Section K)) : (starts k ss).length = ss.length := by
  induction ss generalizing k with
  | nil => rfl
  | cons s ss ih => simp [starts, ih]
theorem ends_length (k : ℕ) (ss : List (Spec.Section K)) : (ends k ss).length = ss.length := by
  induction ss generalizing k with
  | nil => rfl
  | cons s ss ih => simp [ends, ih]

theorem indices_section (s : Spec.Section K) (hwf : Spec.SectionWF s) (k : ℕ) :
    Impl.indicesFrom Impl.isStep k (Spec.sectionLines s) = [k] ∧
    Impl.indicesFrom Impl.isLoop k (Spec.sectionLines s) = [k + 1 + s.rows.length] := by
  unfold Spec.sectionLines
  constructor
  · simp only [Impl.indicesFrom, hwf.header.1, if_true]
    rw [indicesFrom_append, indicesFrom_none _ _ _ (fun l hl => (hwf.rows l hl).1)]
    simp only [Impl.indicesFrom, hwf.loop.2]
    rw [indicesFrom_none _ _ _ (fun l hl => (hwf.noise l hl).1)]
    simp
  · simp only [Impl.indicesFrom, hwf.header.2]
    rw [indicesFrom_append, indicesFrom_none _ _ _ (fun l hl => (hwf.rows l hl).2)]
    simp only [Impl.indicesFrom, hwf.loop.1, if_true]
    rw [indicesFrom_none _ _ _ (fun l hl => (hwf.noise l hl).2)]
    simp

theorem indices_sections (ss : List (Spec.Section K)) (hwf : ∀ s ∈ ss, Spec.SectionWF s) (k : ℕ) :
    Impl.indicesFrom Impl.isStep k (ss.flatMap Spec.sectionLines) = starts k ss ∧
    Impl.indicesFrom Impl.isLoop k (ss.flatMap Spec.sectionLines) = ends k ss := by
  induction ss generalizing k with
  | nil => exact ⟨rfl, rfl⟩
  | cons s ss ih =>
    have h1 := indices_section s (hwf s (by simp)) k
    have h2 := ih (fun x hx => hwf x (by simp [hx])) (k + (Spec.sectionLines s).length)
    simp only [List.flatMap_cons, indicesFrom_append, h1.1, h1.2, h2.1, h2.2, starts, ends]
    exact ⟨rfl, rfl⟩

theorem tablesOf_sections (P T : Lines K) (ss : List (Spec.Section K)) :
    Impl.tablesOf (P ++ ss.flatMap Spec.sectionLines ++ T)
        (((starts P.length ss).zip ((ends P.length ss).map fun (i : ℕ) => (i : ℤ))).map fun p => (some p.1, p.2, p.1))
      = .ok (ss.map fun s => ⟨s.header, s.rows⟩) := by
  induction ss generalizing P with
  | nil => rfl
  | cons s ss ih =>
    have ih' := ih (P ++ Spec.sectionLines s)
    simp only [List.length_append] at ih'
    simp only [starts, ends, List.map_cons, List.zip_cons_cons, Impl.tablesOf, List.flatMap_cons]
    have hn : ¬ (((P.length + 1 + s.rows.length : ℕ) : ℤ) - (P.length : ℤ) - 1 < 0) := by omega
    rw [if_neg hn]
    have e : P ++ (Spec.sectionLines s ++ ss.flatMap Spec.sectionLines) ++ T
        = (P ++ Spec.sectionLines s) ++ ss.flatMap Spec.sectionLines ++ T := by simp
    rw [e, ih']
    simp only [ok_bind]
    have hr : (((P.length + 1 + s.rows.length : ℕ) : ℤ) - (P.length : ℤ) - 1).toNat = s.rows.length := by omega
    rw [hr]
    congr 2
    unfold Impl.readCsv
    have hd : List.drop P.length ((P ++ Spec.sectionLines s) ++ ss.flatMap Spec.sectionLines ++ T)
        = s.header :: (s.rows ++ (s.loop :: s.noise ++ (ss.flatMap Spec.sectionLines ++ T))) := by
      simp [Spec.sectionLines]
    rw [hd]
    simp

/-- the log reader on a log made of complete sections -/
theorem readLog_emit (pre : Lines K) (ss : List (Spec.Section K)) (hwf : ∀ s ∈ ss, Spec.SectionWF s)
    (hpre : ∀ l ∈ pre, Spec.plain l) (last : Line K) (hlast : (Spec.emitLog pre ss).getLast? = some last)
    (hnum : last.isEmpty = true ∨ Impl.firstNumeric last = false) :
    Impl.readLog (Spec.emitLog pre ss) = .ok (ss.map fun s => ⟨s.header, s.rows⟩) := by
  unfold Impl.readLog
  rw [hlast]
  have hc : (!last.isEmpty && Impl.firstNumeric last) = false := by
    rcases hnum with h | h <;> simp [h]
  simp only [hc, Bool.false_eq_true, if_false]
  have hi := indices_sections ss hwf pre.length
  have hs : Impl.indicesFrom Impl.isStep 0 (Spec.emitLog pre ss) = starts pre.length ss := by
    unfold Spec.emitLog
    rw [indicesFrom_append, indicesFrom_none _ _ _ (fun l hl => (hpre l hl).1)]
    simpa using hi.1
  have he : Impl.indicesFrom Impl.isLoop 0 (Spec.emitLog pre ss) = ends pre.length ss := by
    unfold Spec.emitLog
    rw [indicesFrom_append, indicesFrom_none _ _ _ (fun l hl => (hpre l hl).2)]
    simpa using hi.2
  rw [hs, he]
  unfold Impl.pairsOf
  rw [if_pos (by simp [starts_length, ends_length])]
  simp only [ok_bind]
  have := tablesOf_sections pre [] ss
  simpa [Spec.emitLog] using this

theorem tablesOf_append (data : Lines K) (A B : List (Option ℕ × ℤ × ℕ)) (ta tb : List (Impl.Table K))
    (ha : Impl.tablesOf data A = .ok ta) (hb : Impl.tablesOf data B = .ok tb) :
    Impl.tablesOf data (A ++ B) = .ok (ta ++ tb) := by
  induction A generalizing ta with
  | nil => cases ha; simpa using hb
  | cons x A ih =>
    obtain ⟨s, e, s0⟩ := x
    cases s with
    | none => simp [Impl.tablesOf] at ha
    | some s =>
      simp only [List.cons_append, Impl.tablesOf] at ha ⊢
      split at ha
      · cases ha
      · rename_i hn
        rw [if_neg hn]
        cases hrec : Impl.tablesOf data A with
        | error err => simp [hrec] at ha
        | ok t' =>
          simp only [hrec, ok_bind] at ha
          cases ha
          simp [ih t' hrec]

/-- a log whose last section is still open: `k` complete sections, then a `Step …` header and `m ≥ 2` rows, the last
line starting with digits -/
theorem readLog_incomplete (pre : Lines K) (ss : List (Spec.Section K)) (hwf : ∀ s ∈ ss, Spec.SectionWF s)
    (hpre : ∀ l ∈ pre, Spec.plain l) (hdr : Line K) (rows : Lines K)
    (hh : Impl.isStep hdr = true ∧ Impl.isLoop hdr = false) (hr : ∀ l ∈ rows, Spec.plain l)
    (hm : 2 ≤ rows.length) (last : Line K) (hlast : rows.getLast? = some last)
    (hnum : last.isEmpty = false ∧ Impl.firstNumeric last = true) :
    Impl.readLog (Spec.emitLog pre ss ++ hdr :: rows)
      = .ok ((ss.map fun s => ⟨s.header, s.rows⟩) ++ [⟨hdr, rows.take (rows.length - 2)⟩]) := by
  have hne : rows ≠ [] := by intro h; simp [h] at hm
  have hl : (Spec.emitLog pre ss ++ hdr :: rows).getLast? = some last := by
    rw [List.getLast?_append, show (hdr :: rows).getLast? = some last by
      rw [List.getLast?_cons_of_ne_nil hne]; exact hlast]
    simp
  unfold Impl.readLog
  rw [hl]
  simp only [hnum.1, hnum.2, Bool.not_false, Bool.and_self, if_true]
  have hi := indices_sections ss hwf pre.length
  have hlen : (Spec.emitLog pre ss).length = pre.length + (ss.flatMap Spec.sectionLines).length := by
    simp [Spec.emitLog]
  have hs : Impl.indicesFrom Impl.isStep 0 (Spec.emitLog pre ss ++ hdr :: rows)
      = starts pre.length ss ++ [(Spec.emitLog pre ss).length] := by
    rw [indicesFrom_append]
    unfold Spec.emitLog
    rw [indicesFrom_append, indicesFrom_none _ _ _ (fun l hl => (hpre l hl).1)]
    simp only [Impl.indicesFrom, hh.1, if_true, indicesFrom_none _ _ _ (fun l hl => (hr l hl).1)]
    simpa using hi.1
  have he : Impl.indicesFrom Impl.isLoop 0 (Spec.emitLog pre ss ++ hdr :: rows) = ends pre.length ss := by
    rw [indicesFrom_append]
    unfold Spec.emitLog
    rw [indicesFrom_append, indicesFrom_none _ _ _ (fun l hl => (hpre l hl).2)]
    simp only [Impl.indicesFrom, hh.2, indicesFrom_none _ _ _ (fun l hl => (hr l hl).2)]
    simpa using hi.2
  rw [hs, he]
  unfold Impl.pairsOf
  rw [if_pos (by simp [starts_length, ends_length])]
  simp only [ok_bind]
  rw [List.zip_append (by simp [starts_length, ends_length]), List.map_append]
  apply tablesOf_append
  · have := tablesOf_sections pre (hdr :: rows) ss
    simpa [Spec.emitLog] using this
  · simp only [List.map_cons, List.map_nil, List.zip_cons_cons, List.zip_nil_right, Impl.tablesOf, List.length_append,
      List.length_cons]
    have hn : ¬ ((((Spec.emitLog pre ss).length + (rows.length + 1) : ℕ) : ℤ) - 2 - ((Spec.emitLog pre ss).length : ℤ) - 1 < 0) := by
      omega
    rw [if_neg hn]
    simp only [ok_bind]
    have hq : ((((Spec.emitLog pre ss).length + (rows.length + 1) : ℕ) : ℤ) - 2 - ((Spec.emitLog pre ss).length : ℤ) - 1).toNat
        = rows.length - 2 := by omega
    rw [hq]
    unfold Impl.readCsv
    simp

end field
end Pms.AuxIo
