import Pms.Model.AuxIo
import Pms.Gen.Writer
import Pms.Lemmas.Lammps
import Mathlib.Algebra.Order.Field.Basic
import Mathlib.Tactic.Ring
import Mathlib.Tactic.Linarith

/-! Helper lemmas for C19 (header writer / auxiliary readers). -/
set_option linter.unusedSectionVars false
set_option linter.unusedSimpArgs false
set_option linter.unusedTactic false
set_option linter.unusedVariables false
namespace Pms.AuxIo
open Pms Pms.Lammps Pms.Lammps.Impl

/-! ### generic list / Except plumbing -/

theorem mapM_ok_of {ε β γ : Type} (g : β → Except ε γ) (h : β → γ) (l : List β) (hg : ∀ x ∈ l, g x = .ok (h x)) :
    l.mapM g = .ok (l.map h) := by
  induction l with
  | nil => rfl
  | cons a l ih =>
    have h1 := hg a (by simp)
    have h2 := ih (fun x hx => hg x (by simp [hx]))
    simp [h1, h2]

theorem flatMap_congr_mem {β γ : Type} (l : List β) (f g : β → List γ) (h : ∀ x ∈ l, f x = g x) :
    l.flatMap f = l.flatMap g := by
  induction l with
  | nil => rfl
  | cons a l ih =>
    simp only [List.flatMap_cons]
    rw [h a (by simp), ih (fun x hx => h x (by simp [hx]))]

section generic
variable {α : Type} [Add α] [Sub α] [Mul α] [OfNat α 0] [IntCast α] [LT α] [DecidableLT α]

theorem header_length (pr : α → Tok α) (nd : Nat) (f : FrameSpec α) : (Lammps.Spec.header pr nd f).length = 9 := by
  cases h : f.tric <;> simp [Lammps.Spec.header, h]

theorem emitFrame_length (pr : α → Tok α) (nd : Nat) (f : FrameSpec α) :
    (Lammps.Spec.emitFrame pr nd f).length = 9 + f.atoms.length := by
  simp [Lammps.Spec.emitFrame, header_length]

theorem emit_cons (pr : α → Tok α) (nd : Nat) (f : FrameSpec α) (fs : List (FrameSpec α)) :
    Lammps.Spec.emit pr nd (f :: fs) = Lammps.Spec.emitFrame pr nd f ++ Lammps.Spec.emit pr nd fs := by
  simp [Lammps.Spec.emit]

theorem drop_len_add {β : Type} (A B : List β) (i : Nat) : List.drop (A.length + i) (A ++ B) = List.drop i B := by
  induction A with
  | nil => simp
  | cons a A ih => simp [Nat.succ_add]

theorem slice_arith (k N : Nat) : (k + 1) * (N + 9) - (k * N + (k + 1) * 9) = N := by
  have : (k + 1) * (N + 9) = k * N + (k + 1) * 9 + N := by ring
  omega

theorem slice_start (k N : Nat) : (k + 1) * N + (k + 1 + 1) * 9 = (9 + N) + (k * N + (k + 1) * 9) := by ring

/-- the slice `content[n*N + (n+1)*9 : (n+1)*(N+9)]` of a dump file whose frames all have `N` atoms is the block of
atom lines of frame `n` -/
theorem slice_emit (pr : α → Tok α) (nd : Nat) (N : Nat) (fs : List (FrameSpec α))
    (hN : ∀ f ∈ fs, f.atoms.length = N) (n : Nat) (hn : n < fs.length) :
    Impl.pySlice (Lammps.Spec.emit pr nd fs) (n * N + (n + 1) * 9) ((n + 1) * (N + 9))
      = (fs[n]).atoms.map (Lammps.Spec.atomLine pr nd) := by
  induction fs generalizing n with
  | nil => simp at hn
  | cons f fs ih =>
    have hf : f.atoms.length = N := hN f (by simp)
    rw [emit_cons]
    unfold Impl.pySlice
    rw [slice_arith]
    cases n with
    | zero =>
      have hh := header_length pr nd f
      simp only [Nat.zero_mul, Nat.zero_add, Nat.one_mul, List.getElem_cons_zero]
      unfold Lammps.Spec.emitFrame
      rw [List.append_assoc, List.drop_append_of_le_length (by omega)]
      rw [List.drop_of_length_le (by omega), List.nil_append]
      rw [List.take_append_of_le_length (by simp [hf])]
      rw [List.take_of_length_le (by simp [hf])]
    | succ k =>
      have hl : (Lammps.Spec.emitFrame pr nd f).length = 9 + N := by rw [emitFrame_length, hf]
      have hk : k < fs.length := by simpa using hn
      have := ih (fun g hg => hN g (by simp [hg])) k hk
      unfold Impl.pySlice at this
      rw [slice_arith] at this
      rw [slice_start, ← hl, drop_len_add]
      simpa using this

end generic

/-! ### the writer -/
section field
variable {K : Type} [Field K] [LinearOrder K] [IsStrictOrderedRing K]

/-- the regenerated dump-header template renders to C01's nine header lines of the frame it describes -/
theorem render_dump_eq (pr : K → Tok K) (rnd : ℕ → K → K) (nd : ℕ) (hnd : nd = 2 ∨ nd = 3) (d : HeaderData K)
    (atoms : List (AtomSpec K)) (hbb : d.nbb = nd) (hN : d.nparticle = (atoms.length : ℤ)) :
    render pr rnd Gen.Writer.dumpHeader d = Lammps.Spec.header pr nd (Spec.writtenFrame nd rnd d atoms) := by
  rcases hnd with rfl | rfl
  · simp [render, Gen.Writer.dumpHeader, renderLine, renderItem, Lammps.Spec.header, Spec.writtenFrame, hbb, hN,
      Lammps.Spec.coordName, range2]
  · simp [render, Gen.Writer.dumpHeader, renderLine, renderItem, Lammps.Spec.header, Spec.writtenFrame, hbb, hN,
      Lammps.Spec.coordName, range3]

theorem render_data_eq (pr : K → Tok K) (rnd : ℕ → K → K) (d : HeaderData K) :
    render pr rnd Gen.Writer.dataHeader d = Spec.dataHeader pr rnd d := by
  by_cases h : d.nbb = 3 <;>
    simp [render, Gen.Writer.dataHeader, renderLine, renderItem, Spec.dataHeader, h]

theorem writtenFrame_wf (rnd : ℕ → K → K) (nd : ℕ) (d : HeaderData K) (atoms : List (AtomSpec K))
    (hids : (atoms.map (·.id)).Perm ((List.range atoms.length).map fun (k : ℕ) => (k : ℤ) + 1))
    (hadd : "x" ∉ d.addson ∧ "xs" ∉ d.addson ∧ "xu" ∉ d.addson) :
    Lammps.Spec.WF (Spec.writtenFrame nd rnd d atoms) :=
  ⟨hids, by simp [Spec.writtenFrame], hadd⟩

/-! ### HOOMD frames -/

theorem gsdFrame_ok (nd : ℕ) (h : Impl.HFrame K) (pos : List (List K)) (hp : h.position ≠ []) :
    Impl.gsdFrame nd h (pos.map fun r => r.take nd) = .ok (Spec.hoomd nd h pos) := by
  unfold Impl.gsdFrame
  have : (h.position.map fun r => r.take nd).isEmpty = false := by
    cases hq : h.position with
    | nil => exact absurd hq hp
    | cons a l => rfl
  simp only [this]
  rfl

theorem zipWith_hoomd (nd : ℕ) (f : List (Impl.HFrame K)) (dcd : List (List (List K))) :
    List.zipWith (fun (fr : Frame K) p => { fr with positions := p.map fun r => r.take nd })
        (f.map fun h => Spec.hoomd nd h []) dcd
      = List.zipWith (fun h p => Spec.hoomd nd h p) f dcd := by
  induction f generalizing dcd with
  | nil => simp
  | cons h f ih =>
    cases dcd with
    | nil => simp
    | cons p dcd =>
      simp only [List.map_cons, List.zipWith_cons_cons, ih]
      rfl

end field
end Pms.AuxIo
