import Pms.Model.Lammps
import Mathlib.Algebra.Order.Field.Basic
import Mathlib.Tactic.Ring
import Mathlib.Tactic.Linarith

/-! Helper lemmas for C01 (LAMMPS dump reading): the `Except` plumbing, the atom loop on emitted lines and the
per-id placement lemma (`foldl_set_byId`: folding `arr[id-1] := v` over any list of atom lines). -/
set_option linter.unusedSectionVars false
set_option linter.unusedSimpArgs false
set_option linter.unusedTactic false
namespace Pms.Lammps
open Impl

@[simp] theorem ok_bind {ε α β : Type} (a : α) (f : α → Except ε β) : (Except.ok a >>= f) = f a := rfl
@[simp] theorem err_bind {ε α β : Type} (e : ε) (f : α → Except ε β) :
    (Except.error e >>= f) = Except.error e := rfl

theorem range2 : List.range 2 = [0, 1] := rfl
theorem range3 : List.range 3 = [0, 1, 2] := rfl

section generic
variable {α : Type} [Add α] [Sub α] [Mul α] [OfNat α 0] [IntCast α] [LT α] [DecidableLT α]

theorem fitRow_of_length {β : Type} (k : Nat) (vs : List β) (h : vs.length = k) : fitRow k vs = .ok vs := by
  unfold fitRow
  split
  · subst h; rfl
  · simp [h]

theorem mapM_toFloat_pr (pr : α → Tok α) (hpr : ∀ x, toFloat (pr x) = .ok x) (l : List α) :
    (l.map pr).mapM toFloat = .ok l := by
  induction l with
  | nil => rfl
  | cons a l ih => simp [hpr, ih]

@[simp] theorem hasWord_nil (s : String) : hasWord (α := α) s [] = false := rfl
@[simp] theorem hasWord_cons (s : String) (t : Tok α) (l : Line α) :
    hasWord s (t :: l) = (isWord s t || hasWord s l) := by simp [hasWord]
@[simp] theorem hasWord_append (s : String) (l m : Line α) :
    hasWord s (l ++ m) = (hasWord s l || hasWord s m) := by simp [hasWord]
@[simp] theorem isWord_word (s w : String) : isWord (α := α) s (.word w) = (w == s) := rfl
@[simp] theorem isWord_int (s : String) (n : Int) : isWord (α := α) s (.int n) = false := rfl

theorem hasWord_map_word (s : String) (l : List String) (h : s ∉ l) :
    hasWord (α := α) s (l.map .word) = false := by
  induction l with
  | nil => rfl
  | cons w l ih =>
    simp only [List.mem_cons, not_or] at h
    simp [ih h.2, Ne.symm h.1]

/-- the slice `item[2: nd+2]` of an emitted atom line is its nd coordinate tokens -/
theorem slice_atomLine (pr : α → Tok α) (nd : Nat) (a : AtomSpec α) :
    ((Spec.atomLine pr nd a).drop 2).take nd = (List.range nd).map fun i => pr (a.c i) := by
  simp [Spec.atomLine]

theorem sliceFloats_atomLine (pr : α → Tok α) (hpr : ∀ x, toFloat (pr x) = .ok x) (nd : Nat) (a : AtomSpec α) :
    sliceFloats nd (Spec.atomLine pr nd a) = .ok ((List.range nd).map a.c) := by
  unfold sliceFloats
  rw [slice_atomLine]
  rw [show ((List.range nd).map fun i => pr (a.c i)) = ((List.range nd).map a.c).map pr by
    rw [List.map_map]; rfl]
  exact mapM_toFloat_pr pr hpr _

/-- state after the atom loop, as a fold over the atom lines -/
def placed (cs : AtomSpec α → List α) (atoms : List (AtomSpec α)) (st : Arrays α) : Arrays α :=
  atoms.foldl (fun st a => ⟨st.ptype.set (a.id - 1).toNat a.type, st.pos.set (a.id - 1).toNat (cs a)⟩) st

theorem placeLine_atomLine (pr : α → Tok α) (nd N : Nat) (coords : Line α → Except Err (List α))
    (cs : AtomSpec α → List α) (a : AtomSpec α) (st : Arrays α)
    (hc : coords (Spec.atomLine pr nd a) = .ok (cs a)) (hl : (cs a).length = nd)
    (hid : 1 ≤ a.id ∧ a.id ≤ N) :
    placeLine nd N coords (Spec.atomLine pr nd a) st
      = .ok ⟨st.ptype.set (a.id - 1).toNat a.type, st.pos.set (a.id - 1).toNat (cs a)⟩ := by
  have hidx : pyIndex N (a.id - 1) = .ok (a.id - 1).toNat := by
    unfold pyIndex
    rw [if_pos (by omega)]
  unfold placeLine
  rw [hc]
  simp [Spec.atomLine, item, toInt, hidx, fitRow_of_length nd (cs a) hl]

theorem readAtoms_emit (pr : α → Tok α) (nd N : Nat) (coords : Line α → Except Err (List α))
    (cs : AtomSpec α → List α)
    (hc : ∀ a, coords (Spec.atomLine pr nd a) = .ok (cs a)) (hl : ∀ a, (cs a).length = nd)
    (atoms : List (AtomSpec α)) (hid : ∀ a ∈ atoms, 1 ≤ a.id ∧ a.id ≤ N) (rest : Lines α) (st : Arrays α) :
    readAtoms nd N coords atoms.length (atoms.map (Spec.atomLine pr nd) ++ rest) st
      = .ok (placed cs atoms st, rest) := by
  induction atoms generalizing st with
  | nil => rfl
  | cons a as ih =>
    have h1 := placeLine_atomLine pr nd N coords cs a st (hc a) (hl a) (hid a (by simp))
    simp only [List.length_cons, List.map_cons, List.cons_append, readAtoms, readline, h1, ok_bind]
    rw [ih (fun b hb => hid b (by simp [hb]))]
    rfl

theorem placed_split (cs : AtomSpec α → List α) (atoms : List (AtomSpec α)) (st : Arrays α) :
    placed cs atoms st =
      ⟨atoms.foldl (fun l a => l.set (a.id - 1).toNat a.type) st.ptype,
       atoms.foldl (fun l a => l.set (a.id - 1).toNat (cs a)) st.pos⟩ := by
  induction atoms generalizing st with
  | nil => rfl
  | cons a as ih => simp only [placed, List.foldl_cons] at ih ⊢; rw [ih]

/-- per-id placement: after folding `arr[id-1] := f line` over ANY list of lines with distinct ids ≥ 1, slot `k` holds the
value of the line with id `k+1` if there is one, and is untouched otherwise -/
theorem foldl_set_byId {β : Type} (f : AtomSpec α → β) (atoms : List (AtomSpec α)) (init : List β)
    (hnd : (atoms.map (·.id)).Nodup) (hpos : ∀ a ∈ atoms, 1 ≤ a.id) (k : Nat) :
    (atoms.foldl (fun l a => l.set (a.id - 1).toNat (f a)) init)[k]? =
      match Spec.byId atoms k with
      | some a => if k < init.length then some (f a) else none
      | none => init[k]? := by
  induction atoms generalizing init with
  | nil => simp [Spec.byId]
  | cons a as ih =>
    have hnd' : (as.map (·.id)).Nodup := (List.nodup_cons.mp (by simpa using hnd)).2
    have hnot : a.id ∉ as.map (·.id) := (List.nodup_cons.mp (by simpa using hnd)).1
    have ha1 : 1 ≤ a.id := hpos a (by simp)
    rw [List.foldl_cons, ih _ hnd' (fun b hb => hpos b (by simp [hb]))]
    by_cases hk : a.id = (k : Int) + 1
    · have hnone : Spec.byId as k = none := by
        unfold Spec.byId
        rw [List.find?_eq_none]
        intro b hb hbk
        apply hnot
        simp only [decide_eq_true_eq] at hbk
        exact List.mem_map.mpr ⟨b, hb, by rw [hbk, hk]⟩
      have hsome : Spec.byId (a :: as) k = some a := by
        unfold Spec.byId; simp [hk]
      have hi : (a.id - 1).toNat = k := by omega
      rw [hnone, hsome, hi]
      simp [List.getElem?_set]
    · have hcons : Spec.byId (a :: as) k = Spec.byId as k := by
        unfold Spec.byId; simp [hk]
      have hi : (a.id - 1).toNat ≠ k := by omega
      rw [hcons]
      cases Spec.byId as k with
      | some b => simp
      | none => exact List.getElem?_set_ne hi

theorem id_inj_of_nodup {l : List (AtomSpec α)} (h : (l.map (·.id)).Nodup) {a b : AtomSpec α}
    (ha : a ∈ l) (hb : b ∈ l) (hab : a.id = b.id) : a = b := by
  induction l with
  | nil => cases ha
  | cons x xs ih =>
    have h' : x.id ∉ xs.map (·.id) ∧ (xs.map (·.id)).Nodup := by
      rw [List.map_cons] at h; exact List.nodup_cons.mp h
    rcases List.mem_cons.mp ha with rfl | ha' <;> rcases List.mem_cons.mp hb with rfl | hb'
    · rfl
    · exact absurd (List.mem_map.mpr ⟨b, hb', hab.symm⟩) h'.1
    · exact absurd (List.mem_map.mpr ⟨a, ha', hab⟩) h'.1
    · exact ih h'.2 ha' hb'

theorem foldl_set_replicate {β : Type} (f : AtomSpec α → β) (atoms : List (AtomSpec α)) (N : Nat) (d : β)
    (hnd : (atoms.map (·.id)).Nodup) (hpos : ∀ a ∈ atoms, 1 ≤ a.id) :
    atoms.foldl (fun l a => l.set (a.id - 1).toNat (f a)) (List.replicate N d) =
      (List.range N).map fun k => Spec.atId atoms k f d := by
  apply List.ext_getElem?
  intro k
  rw [foldl_set_byId f atoms _ hnd hpos k]
  unfold Spec.atId
  by_cases hk : k < N
  · cases h : Spec.byId atoms k <;> simp [hk, h]
  · cases h : Spec.byId atoms k <;> simp [hk, h]

/-! ### every successful `readFrame` consumes at least one line: the fuel of `readAll` is adequate -/

theorem readline_le (ls : Lines α) : (readline ls).2.length ≤ ls.length := by
  cases ls <;> simp [readline]

theorem readBoxRows_le (b : Bool) (k n : Nat) (ls : Lines α) (r : List (List α) × Lines α)
    (h : readBoxRows b k n ls = .ok r) : r.2.length ≤ ls.length := by
  induction n generalizing ls r with
  | zero => simp [readBoxRows] at h; subst h; simp
  | succ n ih =>
    unfold readBoxRows at h
    cases h1 : ((readline ls).1.take k).mapM toFloat with
    | error e => simp [h1] at h
    | ok vs =>
      simp only [h1, ok_bind] at h
      have key : ∀ (row : Except Err (List α)),
          (do let row ← row
              let r ← readBoxRows b k n (readline ls).2
              Except.ok (row :: r.1, r.2)) = Except.ok r → r.2.length ≤ ls.length := by
        intro row h
        cases row with
        | error e => simp at h
        | ok row =>
          simp only [ok_bind] at h
          cases h3 : readBoxRows b k n (readline ls).2 with
          | error e => simp [h3] at h
          | ok r' =>
            simp only [h3, ok_bind] at h
            have := ih _ _ h3
            have h4 := readline_le ls
            cases h
            simp; omega
      split at h
      · exact key _ h
      · exact key _ h

theorem readAtoms_le (nd N : Nat) (coords : Line α → Except Err (List α)) (n : Nat) (ls : Lines α) (st : Arrays α)
    (r : Arrays α × Lines α) (h : readAtoms nd N coords n ls st = .ok r) : r.2.length ≤ ls.length := by
  induction n generalizing ls st r with
  | zero => simp [readAtoms] at h; subst h; simp
  | succ n ih =>
    unfold readAtoms at h
    cases h1 : placeLine nd N coords (readline ls).1 st with
    | error e => simp [h1] at h
    | ok st' =>
      simp only [h1, ok_bind] at h
      have := ih _ _ _ h
      have h4 := readline_le ls
      omega

theorem readOrth_le (nd : Nat) (ts : Int) (N : Nat) (ls : Lines α) (x : Frame α × Lines α)
    (h : readOrth nd ts N ls = .ok (some x)) : x.2.length ≤ ls.length := by
  unfold readOrth at h
  cases h1 : readBoxRows true 2 nd ls with
  | error e => simp [h1] at h
  | ok bb =>
    simp only [h1, ok_bind] at h
    have hb := readBoxRows_le _ _ _ _ _ h1
    have hd : (List.drop (3 - nd) bb.2).length ≤ ls.length := by simp; omega
    have hl := readline_le (List.drop (3 - nd) bb.2)
    split at h
    · cases h2 : readAtoms nd N (sliceFloats nd) N (readline (List.drop (3 - nd) bb.2)).2 (zeros nd N) with
      | error e => simp [h2] at h
      | ok r =>
        simp only [h2, ok_bind] at h
        have := readAtoms_le _ _ _ _ _ _ _ h2
        split at h <;> (cases h; simp; omega)
    · split at h
      · cases h2 : readAtoms nd N (scaledOrth nd (subList (col 1 bb.1) (col 0 bb.1)) (col 0 bb.1)) N
            (readline (List.drop (3 - nd) bb.2)).2 (zeros nd N) with
        | error e => simp [h2] at h
        | ok r =>
          simp only [h2, ok_bind] at h
          have := readAtoms_le _ _ _ _ _ _ _ h2
          cases h; simp; omega
      · cases h; simp; omega

theorem bind_fin_le {F : Type} (x : Except Err (Arrays α × Lines α)) (bound : Nat)
    (hx : ∀ r, x = .ok r → r.2.length ≤ bound) (mk : Arrays α × Lines α → F) (y : F × Lines α)
    (h : (do let r ← x; (Except.ok (some (mk r, r.2)) : Except Err (Option (F × Lines α)))) = .ok (some y)) :
    y.2.length ≤ bound := by
  cases x with
  | error e => simp at h
  | ok r =>
    simp only [ok_bind] at h
    cases h
    exact hx r rfl

theorem readTric_le (nd : Nat) (ts : Int) (N : Nat) (ls : Lines α) (x : Frame α × Lines α)
    (h : readTric nd ts N ls = .ok (some x)) : x.2.length ≤ ls.length := by
  unfold readTric at h
  cases h1 : readBoxRows true 3 nd ls with
  | error e => simp [h1] at h
  | ok b0 =>
    simp only [h1, ok_bind] at h
    have hb0 := readBoxRows_le _ _ _ _ _ h1
    cases h2 : readBoxRows false 3 (3 - nd) b0.2 with
    | error e => simp [h2] at h
    | ok b1 =>
      simp only [h2, ok_bind] at h
      have hb1 := readBoxRows_le _ _ _ _ _ h2
      have hl := readline_le b1.2
      split at h
      · refine bind_fin_le _ _ (fun r hr => ?_) _ _ h
        have := readAtoms_le _ _ _ _ _ _ _ hr
        omega
      · split at h
        · split at h
          · refine bind_fin_le _ _ (fun r hr => ?_) _ _ h
            have := readAtoms_le _ _ _ _ _ _ _ hr
            omega
          · cases h
        · cases h; simp; omega

theorem readFrame_lt (nd : Nat) (ls : Lines α) (x : Frame α × Lines α)
    (h : readFrame nd ls = .ok (some x)) : x.2.length < ls.length := by
  cases ls with
  | nil => simp [readFrame] at h
  | cons l ls =>
    unfold readFrame at h
    cases h1 : pyInt (readline ls).1 with
    | error e => simp [h1] at h
    | ok ts =>
      simp only [h1, ok_bind] at h
      cases h2 : pyInt (readline (readline (readline ls).2).2).1 with
      | error e => simp [h2] at h
      | ok n =>
        simp only [h2, ok_bind] at h
        have e1 := readline_le ls
        have e2 := readline_le (readline ls).2
        have e3 := readline_le (readline (readline ls).2).2
        have e4 := readline_le (readline (readline (readline ls).2).2).2
        split at h
        · cases h
        · split at h
          · have := readTric_le _ _ _ _ _ h
            simp; omega
          · have := readOrth_le _ _ _ _ _ h
            simp; omega

theorem readAllFuel_irrelevant (nd : Nat) (a b : Nat) (ls : Lines α) (ha : ls.length < a) (hb : ls.length < b) :
    readAllFuel nd a ls = readAllFuel nd b ls := by
  induction a generalizing b ls with
  | zero => omega
  | succ a ih =>
    obtain ⟨b, rfl⟩ : ∃ k, b = k + 1 := ⟨b - 1, by omega⟩
    unfold readAllFuel
    cases h : readFrame nd ls with
    | error e => rfl
    | ok o =>
      cases o with
      | none => rfl
      | some x =>
        have := readFrame_lt nd ls x h
        simp only [ok_bind]
        rw [ih b x.2 (by omega) (by omega)]

end generic

/-! ### over an ordered field -/
section field
variable {K : Type} [Field K] [LinearOrder K] [IsStrictOrderedRing K]

theorem wf_nodup (f : FrameSpec K) (h : Spec.WF f) : (f.atoms.map (·.id)).Nodup := by
  refine h.ids.nodup_iff.mpr ?_
  refine List.Pairwise.map _ (fun a b hab => ?_) List.nodup_range
  intro h; apply hab; omega

theorem wf_range (f : FrameSpec K) (h : Spec.WF f) : ∀ a ∈ f.atoms, 1 ≤ a.id ∧ a.id ≤ f.atoms.length := by
  intro a ha
  have : a.id ∈ (List.range f.atoms.length).map fun (k : Nat) => (k : Int) + 1 :=
    h.ids.mem_iff.mp (List.mem_map.mpr ⟨a, ha, rfl⟩)
  obtain ⟨k, hk, hk2⟩ := List.mem_map.mp this
  have := List.mem_range.mp hk
  omega

theorem byId_some (f : FrameSpec K) (h : Spec.WF f) (k : Nat) (hk : k < f.atoms.length) :
    ∃ a, a ∈ f.atoms ∧ a.id = (k : Int) + 1 ∧ Spec.byId f.atoms k = some a := by
  have : ((k : Int) + 1) ∈ f.atoms.map (·.id) :=
    h.ids.mem_iff.mpr (List.mem_map.mpr ⟨k, List.mem_range.mpr hk, rfl⟩)
  obtain ⟨b, hb, hbk⟩ := List.mem_map.mp this
  cases hfind : Spec.byId f.atoms k with
  | none =>
    unfold Spec.byId at hfind
    rw [List.find?_eq_none] at hfind
    exact absurd (by simpa using hbk) (hfind b hb)
  | some a =>
    unfold Spec.byId at hfind
    have h1 := List.find?_some hfind
    have h2 := List.mem_of_find?_eq_some hfind
    exact ⟨a, h2, by simpa using h1, rfl⟩

theorem wrap_eq (lo hi x : K) : wrapHi hi (hi - lo) (wrapLo lo (hi - lo) x) = Spec.wrap lo hi x := by
  unfold wrapHi wrapLo Spec.wrap
  by_cases h1 : x < lo
  · have : ¬ hi < x + (hi - lo) := by intro h; linarith
    simp [h1, this]
  · simp [h1]

theorem placed_zeros (f : FrameSpec K) (hwf : Spec.WF f) (nd : Nat) (cs : AtomSpec K → List K) :
    placed cs f.atoms (zeros nd f.atoms.length) =
      ⟨(List.range f.atoms.length).map fun k => Spec.atId f.atoms k (·.type) 0,
       (List.range f.atoms.length).map fun k => Spec.atId f.atoms k cs (List.replicate nd 0)⟩ := by
  rw [placed_split]
  have hp : ∀ a ∈ f.atoms, 1 ≤ a.id := fun a ha => (wf_range f hwf a ha).1
  simp only [zeros]
  rw [foldl_set_replicate _ _ _ _ (wf_nodup f hwf) hp, foldl_set_replicate _ _ _ _ (wf_nodup f hwf) hp]

theorem atId_congr {β : Type} (atoms : List (AtomSpec K)) (k : Nat) (g g' : AtomSpec K → β) (d : β)
    (h : ∀ a, g a = g' a) : Spec.atId atoms k g d = Spec.atId atoms k g' d := by
  rw [show g = g' from funext h]

section frame
variable (pr : K → Tok K) (hpr : ∀ x, toFloat (pr x) = .ok x) (f : FrameSpec K) (hwf : Spec.WF f) (rest : Lines K)
include hpr hwf

macro "read_simp" "[" ts:Lean.Parser.Tactic.simpLemma,* "]" : tactic =>
  `(tactic| simp [Spec.emitFrame, Spec.header, readFrame, readline, pyInt, readOrth, readTric, readBoxRows, fitRow,
      exactRow, Spec.coordName, col, subList, range2, range3, $ts,*])
macro "spec_simp" "[" ts:Lean.Parser.Tactic.simpLemma,* "]" : tactic =>
  `(tactic| simp [Spec.expected, Frame.mk.injEq, range2, range3, diag, Spec.bndLo, Spec.bndHi, Spec.hmat, $ts,*])

theorem frame_orth_x (nd : Nat) (hnd : nd = 2 ∨ nd = 3) (htr : f.tric = false) (hst : f.style = .x) :
    Impl.readFrame nd (Spec.emitFrame pr nd f ++ rest) = .ok (some (Spec.expected nd f, rest)) := by
  have hfl := hasWord_map_word (α := K) "xy" f.flags hwf.flags
  have hn : ¬ ((f.atoms.length : Int) < 0) := by omega
  rcases hnd with rfl | rfl
  · have hra := readAtoms_emit pr 2 f.atoms.length (sliceFloats 2) (fun a => (List.range 2).map a.c)
      (sliceFloats_atomLine pr hpr 2) (by simp) f.atoms (wf_range f hwf) rest (zeros 2 f.atoms.length)
    rw [placed_zeros f hwf] at hra
    read_simp [htr, hst, hpr, hfl, hra, hn]
    spec_simp [htr]
    intro k hk
    obtain ⟨a, _, _, ha⟩ := byId_some f hwf k hk
    simp [Spec.atId, ha, wrapRow, Spec.cart, hst, htr, wrap_eq]
  · have hra := readAtoms_emit pr 3 f.atoms.length (sliceFloats 3) (fun a => (List.range 3).map a.c)
      (sliceFloats_atomLine pr hpr 3) (by simp) f.atoms (wf_range f hwf) rest (zeros 3 f.atoms.length)
    rw [placed_zeros f hwf] at hra
    read_simp [htr, hst, hpr, hfl, hra, hn]
    spec_simp [htr]
    intro k hk
    obtain ⟨a, _, _, ha⟩ := byId_some f hwf k hk
    simp [Spec.atId, ha, wrapRow, Spec.cart, hst, htr, wrap_eq]

theorem frame_orth_xu (nd : Nat) (hnd : nd = 2 ∨ nd = 3) (htr : f.tric = false) (hst : f.style = .xu) :
    Impl.readFrame nd (Spec.emitFrame pr nd f ++ rest) = .ok (some (Spec.expected nd f, rest)) := by
  have hfl := hasWord_map_word (α := K) "xy" f.flags hwf.flags
  have hx := hasWord_map_word (α := K) "x" f.extraNames hwf.names.1
  have hn : ¬ ((f.atoms.length : Int) < 0) := by omega
  rcases hnd with rfl | rfl
  · have hra := readAtoms_emit pr 2 f.atoms.length (sliceFloats 2) (fun a => (List.range 2).map a.c)
      (sliceFloats_atomLine pr hpr 2) (by simp) f.atoms (wf_range f hwf) rest (zeros 2 f.atoms.length)
    rw [placed_zeros f hwf] at hra
    read_simp [htr, hst, hpr, hfl, hx, hra, hn]
    spec_simp [htr, Spec.cart, hst]
  · have hra := readAtoms_emit pr 3 f.atoms.length (sliceFloats 3) (fun a => (List.range 3).map a.c)
      (sliceFloats_atomLine pr hpr 3) (by simp) f.atoms (wf_range f hwf) rest (zeros 3 f.atoms.length)
    rw [placed_zeros f hwf] at hra
    read_simp [htr, hst, hpr, hfl, hx, hra, hn]
    spec_simp [htr, Spec.cart, hst]

theorem scaledOrth_atomLine (nd : Nat) (len lo : List K) (a : AtomSpec K) :
    scaledOrth nd len lo (Spec.atomLine pr nd a) = .ok (scale3 ((List.range nd).map a.c) len lo) := by
  unfold scaledOrth
  rw [sliceFloats_atomLine pr hpr nd a]
  simp [fitRow_of_length]

theorem frame_orth_xs (nd : Nat) (hnd : nd = 2 ∨ nd = 3) (htr : f.tric = false) (hst : f.style = .xs) :
    Impl.readFrame nd (Spec.emitFrame pr nd f ++ rest) = .ok (some (Spec.expected nd f, rest)) := by
  have hfl := hasWord_map_word (α := K) "xy" f.flags hwf.flags
  have hx := hasWord_map_word (α := K) "x" f.extraNames hwf.names.1
  have hxu := hasWord_map_word (α := K) "xu" f.extraNames hwf.names.2.2
  have hn : ¬ ((f.atoms.length : Int) < 0) := by omega
  rcases hnd with rfl | rfl
  · have hra := readAtoms_emit pr 2 f.atoms.length
      (scaledOrth 2 [f.hi 0 - f.lo 0, f.hi 1 - f.lo 1] [f.lo 0, f.lo 1])
      (fun a => scale3 ((List.range 2).map a.c) [f.hi 0 - f.lo 0, f.hi 1 - f.lo 1] [f.lo 0, f.lo 1])
      (scaledOrth_atomLine pr hpr f hwf 2 _ _) (by simp [range2, scale3]) f.atoms (wf_range f hwf) rest (zeros 2 f.atoms.length)
    rw [placed_zeros f hwf] at hra
    read_simp [htr, hst, hpr, hfl, hx, hxu, hra, hn]
    spec_simp [htr, Spec.cart, hst, scale3, sumRange]
    intro k _
    apply atId_congr; intro a
    simp only [List.cons.injEq, and_true]
    constructor <;> ring
  · have hra := readAtoms_emit pr 3 f.atoms.length
      (scaledOrth 3 [f.hi 0 - f.lo 0, f.hi 1 - f.lo 1, f.hi 2 - f.lo 2] [f.lo 0, f.lo 1, f.lo 2])
      (fun a => scale3 ((List.range 3).map a.c) [f.hi 0 - f.lo 0, f.hi 1 - f.lo 1, f.hi 2 - f.lo 2] [f.lo 0, f.lo 1, f.lo 2])
      (scaledOrth_atomLine pr hpr f hwf 3 _ _) (by simp [range3, scale3]) f.atoms (wf_range f hwf) rest (zeros 3 f.atoms.length)
    rw [placed_zeros f hwf] at hra
    read_simp [htr, hst, hpr, hfl, hx, hxu, hra, hn]
    spec_simp [htr, Spec.cart, hst, scale3, sumRange]
    intro k _
    apply atId_congr; intro a
    simp only [List.cons.injEq, and_true]
    refine ⟨by ring, by ring, by ring⟩

theorem frame_tric_verbatim (nd : Nat) (hnd : nd = 2 ∨ nd = 3) (htr : f.tric = true)
    (hst : f.style = .x ∨ f.style = .xu) :
    Impl.readFrame nd (Spec.emitFrame pr nd f ++ rest) = .ok (some (Spec.expected nd f, rest)) := by
  have hn : ¬ ((f.atoms.length : Int) < 0) := by omega
  rcases hnd with rfl | rfl
  · have hra := readAtoms_emit pr 2 f.atoms.length (sliceFloats 2) (fun a => (List.range 2).map a.c)
      (sliceFloats_atomLine pr hpr 2) (by simp) f.atoms (wf_range f hwf) rest (zeros 2 f.atoms.length)
    rw [placed_zeros f hwf] at hra
    rcases hst with hst | hst
    · read_simp [htr, hst, hpr, hra, hn]
      spec_simp [htr, Spec.cart, hst]
    · read_simp [htr, hst, hpr, hra, hn]
      spec_simp [htr, Spec.cart, hst]
  · have hra := readAtoms_emit pr 3 f.atoms.length (sliceFloats 3) (fun a => (List.range 3).map a.c)
      (sliceFloats_atomLine pr hpr 3) (by simp) f.atoms (wf_range f hwf) rest (zeros 3 f.atoms.length)
    rw [placed_zeros f hwf] at hra
    rcases hst with hst | hst
    · read_simp [htr, hst, hpr, hra, hn]
      spec_simp [htr, Spec.cart, hst]
    · read_simp [htr, hst, hpr, hra, hn]
      spec_simp [htr, Spec.cart, hst]

def csTric (nd : Nat) (c : TricCell K) (a : AtomSpec K) : List K :=
  if nd = 3 then
    [c.xlo + a.c 0 * c.h0 + a.c 1 * c.h5 + a.c 2 * c.h4, c.ylo + a.c 1 * c.h1 + a.c 2 * c.h3, c.zlo + a.c 2 * c.h2]
  else [c.xlo + a.c 0 * c.h0 + a.c 1 * c.h5, c.ylo + a.c 1 * c.h1]

theorem scaledTric_atomLine (nd : Nat) (hnd : nd = 2 ∨ nd = 3) (c : TricCell K) (a : AtomSpec K) :
    scaledTric nd c (Spec.atomLine pr nd a) = .ok (csTric nd c a) := by
  rcases hnd with rfl | rfl
  · simp [scaledTric, csTric, floatAt, item, Spec.atomLine, range2, hpr]
  · simp [scaledTric, csTric, floatAt, item, Spec.atomLine, range3, hpr]

theorem frame_tric_xs (nd : Nat) (hnd : nd = 2 ∨ nd = 3) (htr : f.tric = true) (hst : f.style = .xs) :
    Impl.readFrame nd (Spec.emitFrame pr nd f ++ rest) = .ok (some (Spec.expected nd f, rest)) := by
  have hx := hasWord_map_word (α := K) "x" f.extraNames hwf.names.1
  have hxu := hasWord_map_word (α := K) "xu" f.extraNames hwf.names.2.2
  have hn : ¬ ((f.atoms.length : Int) < 0) := by omega
  have hra : ∀ c : TricCell K, _ := fun c => readAtoms_emit pr nd f.atoms.length (scaledTric nd c) (csTric nd c)
      (scaledTric_atomLine pr hpr f hwf nd hnd c) (by intro a; rcases hnd with rfl | rfl <;> simp [csTric])
      f.atoms (wf_range f hwf) rest (zeros nd f.atoms.length)
  simp only [placed_zeros f hwf] at hra
  rcases hnd with rfl | rfl
  · read_simp [htr, hst, hpr, hx, hxu, hra, hn]
    spec_simp [htr, Spec.cart, hst, sumRange]
    intro k _
    apply atId_congr; intro a
    rw [csTric, if_neg (by decide)]
    simp only [List.cons.injEq, and_true]
    repeat' apply And.intro
    all_goals ring
  · read_simp [htr, hst, hpr, hx, hxu, hra, hn]
    spec_simp [htr, Spec.cart, hst, sumRange]
    intro k _
    apply atId_congr; intro a
    rw [csTric, if_pos rfl]
    simp only [List.cons.injEq, and_true]
    repeat' apply And.intro
    all_goals ring

/-- one emitted frame, followed by anything, is read back as exactly `Spec.expected` and the rest is left untouched -/
theorem readFrame_emitFrame (nd : Nat) (hnd : nd = 2 ∨ nd = 3) :
    Impl.readFrame nd (Spec.emitFrame pr nd f ++ rest) = .ok (some (Spec.expected nd f, rest)) := by
  cases htr : f.tric <;> cases hst : f.style
  · exact frame_orth_x pr hpr f hwf rest nd hnd htr hst
  · exact frame_orth_xs pr hpr f hwf rest nd hnd htr hst
  · exact frame_orth_xu pr hpr f hwf rest nd hnd htr hst
  · exact frame_tric_verbatim pr hpr f hwf rest nd hnd htr (Or.inl hst)
  · exact frame_tric_xs pr hpr f hwf rest nd hnd htr hst
  · exact frame_tric_verbatim pr hpr f hwf rest nd hnd htr (Or.inr hst)
end frame

theorem emitFrame_length_pos (pr : K → Tok K) (nd : ℕ) (f : FrameSpec K) :
    0 < (Spec.emitFrame pr nd f).length := by
  cases h : f.tric <;> simp [Spec.emitFrame, Spec.header, h]

theorem readAllFuel_emit (pr : K → Tok K) (hpr : ∀ x, toFloat (pr x) = .ok x) (nd : ℕ) (hnd : nd = 2 ∨ nd = 3)
    (fs : List (FrameSpec K)) (hwf : ∀ f ∈ fs, Spec.WF f) (fuel : ℕ) (hfuel : (Spec.emit pr nd fs).length < fuel) :
    Impl.readAllFuel nd fuel (Spec.emit pr nd fs) = .ok (fs.map (Spec.expected nd)) := by
  induction fs generalizing fuel with
  | nil =>
    obtain ⟨k, rfl⟩ : ∃ k, fuel = k + 1 := ⟨fuel - 1, by omega⟩
    simp [Spec.emit, readAllFuel, readFrame]
  | cons f fs ih =>
    obtain ⟨k, rfl⟩ : ∃ k, fuel = k + 1 := ⟨fuel - 1, by omega⟩
    have h1 := readFrame_emitFrame pr hpr f (hwf f (by simp)) (Spec.emit pr nd fs) nd hnd
    have hlen := emitFrame_length_pos pr nd f
    have hk : (Spec.emit pr nd fs).length < k := by
      simp only [Spec.emit, List.flatMap_cons, List.length_append] at hfuel ⊢
      omega
    have h2 := ih (fun g hg => hwf g (by simp [hg])) k hk
    simp only [Spec.emit, List.flatMap_cons] at h1 h2 ⊢
    simp [readAllFuel, h1, h2]


end field
end Pms.Lammps
