import Pms.Lemmas.Sq
import Mathlib.Analysis.Complex.Trigonometric
import Mathlib.Analysis.SpecialFunctions.Trigonometric.Basic
import Mathlib.Data.List.Sort

/-! C04 helpers: the density modes over ℂ, and `np.unique` on type ids 1..K. -/
namespace Pms.Sq
open Pms

/-- ρ_a(q) = Σ_{i of species a} exp(−i θ_i),  θ_i = q·r_i -/
noncomputable def rhoC (N : ℕ) (ty : ℕ → ℕ) (θ : ℕ → ℝ) (a : ℕ) : ℂ :=
  ∑ i ∈ Finset.range N, if ty i = a then Complex.exp (-(Complex.I * (θ i : ℂ))) else 0

/-- q·r for q = 2π n / L in d dimensions -/
noncomputable def qdotr (d : ℕ) (n : ℕ → ℤ) (L : ℕ → ℝ) (r : ℕ → ℕ → ℝ) (i : ℕ) : ℝ :=
  ∑ j ∈ Finset.range d, (2 * Real.pi * (n j : ℝ) / L j) * r i j

theorem rhoC_re (N : ℕ) (ty : ℕ → ℕ) (θ : ℕ → ℝ) (a : ℕ) :
    (rhoC N ty θ a).re = ∑ i ∈ Finset.range N, if ty i = a then Real.cos (θ i) else 0 := by
  unfold rhoC
  rw [Complex.re_sum]
  refine Finset.sum_congr rfl fun i _ => ?_
  split
  · have : -(Complex.I * (θ i : ℂ)) = ((-θ i : ℝ) : ℂ) * Complex.I := by push_cast; ring
    rw [this, Complex.exp_ofReal_mul_I_re, Real.cos_neg]
  · simp

theorem rhoC_im (N : ℕ) (ty : ℕ → ℕ) (θ : ℕ → ℝ) (a : ℕ) :
    (rhoC N ty θ a).im = ∑ i ∈ Finset.range N, if ty i = a then -Real.sin (θ i) else 0 := by
  unfold rhoC
  rw [Complex.im_sum]
  refine Finset.sum_congr rfl fun i _ => ?_
  split
  · have : -(Complex.I * (θ i : ℂ)) = ((-θ i : ℝ) : ℂ) * Complex.I := by push_cast; ring
    rw [this, Complex.exp_ofReal_mul_I_im, Real.sin_neg]
  · simp

/-- the driver's `np.unique`: if the type ids of frame 0 are exactly 1..K (all in range, each present) the sorted
distinct ids are [1, …, K] -/
theorem uniqTypes_eq {K N : ℕ} (ty0 : ℕ → ℕ) (hty : ∀ i < N, 1 ≤ ty0 i ∧ ty0 i ≤ K)
    (hpos : ∀ a, 1 ≤ a ∧ a ≤ K → 0 < countType N ty0 a) : uniqTypes N ty0 = List.range' 1 K := by
  unfold uniqTypes
  refine (sorted_distinctKeys N ty0).eq_of_mem_iff (List.pairwise_lt_range' 1) fun a => ?_
  rw [mem_distinctKeys, mem_range'_one]
  constructor
  · rintro ⟨k, hk, rfl⟩; exact hty k hk
  · intro ha
    have hp := hpos a ha
    by_contra hne
    push Not at hne
    have : countType N ty0 a = 0 := by
      unfold countType
      rw [sumRange_eq]
      exact Finset.sum_eq_zero fun i hi => if_neg (hne i (Finset.mem_range.1 hi))
    omega

end Pms.Sq
