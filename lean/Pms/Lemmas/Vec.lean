import Pms.Model.Vec
import Pms.Lemmas.Basic
import Pms.Lemmas.Pbc
import Mathlib.Algebra.Order.Chebyshev
import Mathlib.Algebra.Order.BigOperators.Group.Finset
import Mathlib.Algebra.Order.BigOperators.Ring.Finset
import Mathlib.Tactic.Positivity

/-! Helper lemmas for C15: loops as `Finset` sums, `absv = |·|`, the two inequalities behind the
participation-ratio bounds. -/
open Finset
namespace Pms.Vec
open Pms

section Monoid
variable {M : Type} [AddCommMonoid M]

/-- `s = 0; for i in range(n): s += g i` -/
theorem foldRange_acc (n : ℕ) (g : ℕ → M) :
    foldRange n (fun s i => s + g i) 0 = ∑ i ∈ range n, g i := by
  induction n with
  | zero => simp [foldRange]
  | succ n ih => rw [foldRange_succ, ih, Finset.sum_range_succ]

/-- `acc = zeros; for j in range(n): acc += g j` (array-valued accumulator), read at slot `k` -/
theorem foldRange_fun_acc (n : ℕ) (g : ℕ → ℕ → M) (k : ℕ) :
    foldRange n (fun (acc : ℕ → M) j => fun k => acc k + g j k) (fun _ => 0) k
      = ∑ j ∈ range n, g j k := by
  induction n with
  | zero => simp [foldRange]
  | succ n ih =>
    rw [foldRange_succ]
    show foldRange n (fun (acc : ℕ → M) j => fun k => acc k + g j k) (fun _ => 0) k + g n k = _
    rw [ih, Finset.sum_range_succ]

end Monoid

section Ordered
variable {K : Type} [Field K] [LinearOrder K] [IsStrictOrderedRing K]

theorem absv_eq_abs (x : K) : absv x = |x| := by
  unfold absv
  split
  · rename_i h; rw [abs_of_neg h]
  · rename_i h; rw [abs_of_nonneg (not_lt.mp h)]

omit [LinearOrder K] [IsStrictOrderedRing K] in
theorem norm2_eq (d : ℕ) (v : ℕ → ℕ → K) (i : ℕ) : norm2 d v i = ∑ k ∈ range d, v i k * v i k := by
  simp [norm2, dot, sumRange_eq]

theorem norm2_nonneg (d : ℕ) (v : ℕ → ℕ → K) (i : ℕ) : 0 ≤ norm2 d v i := by
  rw [norm2_eq]; exact Finset.sum_nonneg fun k _ => mul_self_nonneg _

theorem norm2_pos (d : ℕ) (v : ℕ → ℕ → K) (i k : ℕ) (hk : k < d) (h : v i k ≠ 0) : 0 < norm2 d v i := by
  rw [norm2_eq]
  have h1 : v i k * v i k ≤ ∑ k ∈ range d, v i k * v i k :=
    Finset.single_le_sum (f := fun k => v i k * v i k) (fun k _ => mul_self_nonneg _) (Finset.mem_range.mpr hk)
  have h2 : 0 < v i k * v i k := mul_self_pos.mpr h
  linarith

/-- for non-negative terms the sum of squares is at most the square of the sum -/
theorem sum_sq_le_sq_sum (n : ℕ) (a : ℕ → K) (ha : ∀ i, 0 ≤ a i) :
    ∑ i ∈ range n, a i * a i ≤ (∑ i ∈ range n, a i) * (∑ i ∈ range n, a i) := by
  rw [Finset.sum_mul]
  refine Finset.sum_le_sum fun i hi => ?_
  have : a i ≤ ∑ i ∈ range n, a i := Finset.single_le_sum (f := a) (fun i _ => ha i) hi
  exact mul_le_mul_of_nonneg_left this (ha i)

/-- Cauchy–Schwarz against the constant vector: `(Σ a)² ≤ N Σ a²` -/
theorem sq_sum_le_card (n : ℕ) (a : ℕ → K) :
    (∑ i ∈ range n, a i) * (∑ i ∈ range n, a i) ≤ (n : K) * ∑ i ∈ range n, a i * a i := by
  have := sq_sum_le_card_mul_sum_sq (s := range n) (f := a)
  simp only [pow_two, Finset.card_range] at this
  exact this

end Ordered

end Pms.Vec
