import Pms.Model.Voro
import Pms.Lemmas.Basic
import Pms.Lemmas.NeighFile
import Mathlib.Data.List.Basic
import Mathlib.Data.List.Range
import Mathlib.Tactic.Ring
import Mathlib.Tactic.Linarith

/-! Lemmas for C20: lists sorted by a key, the row walk of `cal_neighbors`, `np.unique`, the volume matrix. -/
namespace Pms.Voro
open Pms Pms.Neigh

/-! ## lists sorted by a natural key -/
section Sorted
variable {β : Type} (key : β → ℕ)

theorem split_sorted (l : List β) (hs : l.Pairwise fun a b => key a ≤ key b) (s : ℕ) :
    l = l.filter (fun p => decide (key p < s)) ++ l.filter (fun p => decide (s ≤ key p)) := by
  induction l with
  | nil => rfl
  | cons a t ih =>
    rw [List.pairwise_cons] at hs
    by_cases h : key a < s
    · have h' : ¬ s ≤ key a := by omega
      simp only [List.filter_cons, h, h', decide_true, decide_false, if_true, Bool.false_eq_true, if_false,
        List.cons_append]
      rw [← ih hs.2]
    · have h' : s ≤ key a := by omega
      have hall : ∀ b ∈ t, ¬ key b < s := fun b hb => by have := hs.1 b hb; omega
      have hf1 : t.filter (fun p => decide (key p < s)) = [] := by
        rw [List.filter_eq_nil_iff]; intro b hb; simpa using hall b hb
      have hf2 : t.filter (fun p => decide (s ≤ key p)) = t := by
        rw [List.filter_eq_self]; intro b hb; have := hall b hb; simp; omega
      simp only [List.filter_cons, h, h', decide_true, decide_false, if_true, Bool.false_eq_true, if_false,
        hf1, hf2, List.nil_append]

theorem drop_sorted (l : List β) (hs : l.Pairwise fun a b => key a ≤ key b) (s : ℕ) :
    l.drop (l.filter (fun p => decide (key p < s))).length = l.filter (fun p => decide (s ≤ key p)) := by
  have h := split_sorted key l hs s
  generalize l.filter (fun p => decide (key p < s)) = A at h ⊢
  generalize l.filter (fun p => decide (s ≤ key p)) = B at h ⊢
  rw [h, List.drop_left]

theorem length_filter_lt_succ (l : List β) (s : ℕ) :
    (l.filter (fun p => decide (key p < s))).length + (l.filter (fun p => decide (key p = s))).length
      = (l.filter (fun p => decide (key p < s + 1))).length := by
  induction l with
  | nil => rfl
  | cons a t ih =>
    rcases Nat.lt_trichotomy (key a) s with h | h | h
    · have h1 : ¬ key a = s := by omega
      have h2 : key a < s + 1 := by omega
      rw [List.filter_cons_of_pos (by simpa using h), List.filter_cons_of_neg (by simpa using h1),
        List.filter_cons_of_pos (by simpa using h2)]
      simp only [List.length_cons]; omega
    · have h1 : ¬ key a < s := by omega
      have h2 : key a < s + 1 := by omega
      rw [List.filter_cons_of_neg (by simpa using h1), List.filter_cons_of_pos (by simpa using h),
        List.filter_cons_of_pos (by simpa using h2)]
      simp only [List.length_cons]; omega
    · have h1 : ¬ key a < s := by omega
      have h2 : ¬ key a < s + 1 := by omega
      have h3 : ¬ key a = s := by omega
      rw [List.filter_cons_of_neg (by simpa using h1), List.filter_cons_of_neg (by simpa using h3),
        List.filter_cons_of_neg (by simpa using h2)]
      exact ih

/-- the block of key `s` of a sorted list sits at offset #(key < s) and has length #(key = s) -/
theorem drop_take_sorted (l : List β) (hs : l.Pairwise fun a b => key a ≤ key b) (s : ℕ) :
    (l.drop (l.filter (fun p => decide (key p < s))).length).take (l.filter (fun p => decide (key p = s))).length
      = l.filter (fun p => decide (key p = s)) := by
  rw [drop_sorted key l hs s]
  set l' := l.filter (fun p => decide (s ≤ key p)) with hl'
  have hs' : l'.Pairwise fun a b => key a ≤ key b := hs.sublist List.filter_sublist
  have h1 : l'.filter (fun p => decide (key p < s + 1)) = l.filter (fun p => decide (key p = s)) := by
    rw [hl', List.filter_filter]
    apply List.filter_congr
    intro b _
    by_cases h : key b = s <;> simp [h] <;> omega
  have := split_sorted key l' hs' (s + 1)
  rw [h1] at this
  rw [this, List.take_left]

theorem sum_block_lengths (l : List β) (N : ℕ) :
    ((List.range N).map fun i => (l.filter (fun p => decide (key p = i))).length).sum
      = (l.filter (fun p => decide (key p < N))).length := by
  induction N with
  | zero => simp
  | succ N ih => rw [List.range_succ, List.map_append, List.sum_append, ih]; simp [length_filter_lt_succ]

end Sorted

/-! ## `np.unique` -/

theorem mem_uniqueNat (l : List ℕ) (a : ℕ) : a ∈ uniqueNat l ↔ a ∈ l := by
  unfold uniqueNat
  simp only [List.mem_filter, List.mem_range, List.contains_iff_mem, decide_eq_true_eq]
  exact ⟨fun h => h.2, fun h => ⟨Nat.lt_succ_of_le (le_maxCn h), h⟩⟩

/-- `np.unique` of a list whose values are exactly `1..N` -/
theorem uniqueNat_cover (f : List ℕ) (N : ℕ) (h0 : 0 ∉ f) (hb : ∀ a ∈ f, a ≤ N)
    (hc : ∀ a, 1 ≤ a → a ≤ N → a ∈ f) : uniqueNat f = List.range' 1 N := by
  unfold uniqueNat
  have hmax : maxCn f = N := by
    apply le_antisymm (maxCn_le hb)
    rcases Nat.eq_zero_or_pos N with h | h
    · omega
    · exact le_maxCn (hc N h le_rfl)
  rw [hmax, List.range_succ_eq_map, List.filter_cons_of_neg (by simpa using h0), List.filter_map,
    List.range'_eq_map_range]
  have : (List.range N).filter ((fun a => f.contains a) ∘ Nat.succ) = List.range N := by
    rw [List.filter_eq_self]
    intro a ha
    have := hc (a + 1) (by omega) (by have := List.mem_range.mp ha; omega)
    simpa using this
  rw [this]
  apply List.map_congr_left
  intro a _; omega

/-! ## the row walk -/
section Walk
variable {α : Type} [OfNat α 0]

/-- the row the walk produces for particle `i` of a well-formed frame -/
def rowOf (raw : Raw α) (i : ℕ) : Row α :=
  { id := i + 1, cn := (adj raw i).length, nb := (adj raw i).map (· + 1), ws := adjW raw i,
    vol := raw.volumes.getD i 0 }

theorem firsts_shiftIds (l : List (ℕ × ℕ)) : (shiftIds l).map (·.1) = l.map fun p => p.1 + 1 := by
  simp [shiftIds, Gen.Voro.idShift, Function.comp_def]

theorem count_firsts (l : List (ℕ × ℕ)) (s : ℕ) :
    List.count (s + 1) (l.map fun p => p.1 + 1) = (l.filter fun p => decide (p.1 = s)).length := by
  induction l with
  | nil => rfl
  | cons a t ih =>
    by_cases h : a.1 = s
    · rw [List.map_cons, List.count_cons, ih, List.filter_cons_of_pos (by simpa using h)]
      simp [h]
    · rw [List.map_cons, List.count_cons, ih, List.filter_cons_of_neg (by simpa using h)]
      simp [h]

/-- first element of the block of key `s` -/
theorem block_start {β : Type} (key : β → ℕ) (l : List β) (hs : l.Pairwise fun a b => key a ≤ key b) (s : ℕ)
    (hne : ∃ b ∈ l, key b = s) :
    ∃ b, l[(l.filter (fun p => decide (key p < s))).length]? = some b ∧ key b = s := by
  have h := drop_take_sorted key l hs s
  obtain ⟨b0, hb0, hk0⟩ := hne
  have hmem : b0 ∈ l.filter (fun p => decide (key p = s)) := by simp [hb0, hk0]
  cases hB : l.filter (fun p => decide (key p = s)) with
  | nil => rw [hB] at hmem; simp at hmem
  | cons b B' =>
    rw [hB] at h
    have hkb : key b = s := by
      have : b ∈ l.filter (fun p => decide (key p = s)) := by rw [hB]; exact List.mem_cons_self
      simpa using (List.mem_filter.mp this).2
    refine ⟨b, ?_, hkb⟩
    rw [← List.head?_drop]
    cases hd : l.drop (l.filter (fun p => decide (key p < s))).length with
    | nil => rw [hd] at h; simp at h
    | cons x xs =>
      rw [hd] at h
      simp only [List.length_cons, List.take_succ_cons, List.cons.injEq] at h
      simp [h.1]

theorem walk_wf (raw : Raw α) (N : ℕ) (h : WF raw N) :
    ∀ m s, s + m = N →
      Impl.walk (shiftIds raw.nlist) raw.weights raw.volumes ((shiftIds raw.nlist).map (·.1))
        (List.range' (s + 1) m) s ((raw.nlist.filter fun p => decide (p.1 < s)).length)
      = .ok ((List.range' s m).map (rowOf raw)) := by
  intro m
  induction m with
  | zero => intro s _; rfl
  | succ m ih =>
    intro s hsm
    have hsN : s < N := by omega
    rw [List.range'_succ, List.range'_succ, List.map_cons, Impl.walk]
    -- the guard
    obtain ⟨b, hb, hkb⟩ := block_start (fun p : ℕ × ℕ => p.1) raw.nlist h.sorted s
      (by obtain ⟨j, hj⟩ := h.cover s hsN; exact ⟨(s, j), hj, rfl⟩)
    have hfirst : ((shiftIds raw.nlist).getD ((raw.nlist.filter fun p => decide (p.1 < s)).length) (0, 0)).1 = s + 1 := by
      rw [List.getD_eq_getElem?_getD]
      unfold shiftIds
      rw [List.getElem?_map, hb]
      simp [Gen.Voro.idShift, hkb]
    have hguard : Gen.Voro.guardFails (s + 1)
        ((shiftIds raw.nlist).getD ((raw.nlist.filter fun p => decide (p.1 < s)).length) (0, 0)).1 s = false := by
      rw [hfirst]; simp [Gen.Voro.guardFails]
    rw [hguard]
    simp only [Bool.false_eq_true, if_false]
    -- the count and the next offset
    have hcn : Gen.Voro.cnExpr (List.count (s + 1) ((shiftIds raw.nlist).map (·.1)))
        = (raw.nlist.filter fun p => decide (p.1 = s)).length := by
      rw [firsts_shiftIds, count_firsts]; rfl
    rw [hcn, length_filter_lt_succ (fun p : ℕ × ℕ => p.1) raw.nlist s, ih (s + 1) (by omega)]
    simp only
    congr 2
    -- the row
    unfold rowOf adj adjW
    have hdt := drop_take_sorted (fun p : ℕ × ℕ => p.1) raw.nlist h.sorted s
    have hnb : ((List.drop (raw.nlist.filter fun p => decide (p.1 < s)).length (shiftIds raw.nlist)).take
          (raw.nlist.filter fun p => decide (p.1 = s)).length).map (·.2)
        = ((raw.nlist.filter fun p => decide (p.1 = s)).map (·.2)).map (· + 1) := by
      unfold shiftIds
      rw [← List.map_drop, ← List.map_take, hdt]
      simp [Gen.Voro.idShift, Function.comp_def]
    -- weights: the same block of the zipped list
    have hz1 : (raw.nlist.zip raw.weights).map (·.1) = raw.nlist :=
      List.map_fst_zip (by rw [h.wlen])
    have hz2 : (raw.nlist.zip raw.weights).map (·.2) = raw.weights :=
      List.map_snd_zip (by rw [h.wlen])
    have hzs : (raw.nlist.zip raw.weights).Pairwise fun a b => a.1.1 ≤ b.1.1 := by
      have := h.sorted
      rw [← hz1, List.pairwise_map] at this
      exact this
    have hlen : ∀ P : ℕ × ℕ → Bool, ((raw.nlist.zip raw.weights).filter fun p => P p.1).length
        = (raw.nlist.filter P).length := by
      intro P
      conv_rhs => rw [← hz1, List.filter_map, List.length_map]
      rfl
    have hzt := drop_take_sorted (fun p : (ℕ × ℕ) × α => p.1.1) (raw.nlist.zip raw.weights) hzs s
    rw [hlen (fun p => decide (p.1 < s)), hlen (fun p => decide (p.1 = s))] at hzt
    have hws : (List.drop (raw.nlist.filter fun p => decide (p.1 < s)).length raw.weights).take
          (raw.nlist.filter fun p => decide (p.1 = s)).length
        = ((raw.nlist.zip raw.weights).filter fun p => decide (p.1.1 = s)).map (·.2) := by
      rw [← hzt, List.map_take, List.map_drop, hz2]
    rw [hnb, hws, List.length_map]

end Walk

end Pms.Voro
