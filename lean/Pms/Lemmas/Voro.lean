import Pms.Model.Voro
import Pms.Lemmas.Basic
import Pms.Lemmas.NeighFile
import Mathlib.Data.List.Basic
import Mathlib.Data.List.Range
import Mathlib.Tactic.Ring
import Mathlib.Tactic.Linarith
import Pms.Lemmas.Rint
import Mathlib.Algebra.Order.BigOperators.Group.List

/-! Lemmas for C20: lists sorted by a key, the row walk of `cal_neighbors`, `np.unique`, the volume matrix. -/
namespace Pms.Voro
open Pms Pms.Neigh

/-! ## lists sorted by a natural key -/
section Sorted
variable {β : Type} (key : β → ℕ)

theorem split_sorted (l : List β) (hs : l.Pairwise fun a b => key a ≤ key b) (s : ℕ) :
    l = l.filter (fun p => decide (key p < s)) ++ l.filter (fun p => decide (s ≤ key p)) := by
  induction l with
  | nil => rfl
  | cons a t ih =>
    rw [List.pairwise_cons] at hs
    by_cases h : key a < s
    · have h' : ¬ s ≤ key a := by omega
      simp only [List.filter_cons, h, h', decide_true, decide_false, if_true, Bool.false_eq_true, if_false,
        List.cons_append]
      rw [← ih hs.2]
    · have h' : s ≤ key a := by omega
      have hall : ∀ b ∈ t, ¬ key b < s := fun b hb => by have := hs.1 b hb; omega
      have hf1 : t.filter (fun p => decide (key p < s)) = [] := by
        rw [List.filter_eq_nil_iff]; intro b hb; simpa using hall b hb
      have hf2 : t.filter (fun p => decide (s ≤ key p)) = t := by
        rw [List.filter_eq_self]; intro b hb; have := hall b hb; simp; omega
      simp only [List.filter_cons, h, h', decide_true, decide_false, if_true, Bool.false_eq_true, if_false,
        hf1, hf2, List.nil_append]

theorem drop_sorted (l : List β) (hs : l.Pairwise fun a b => key a ≤ key b) (s : ℕ) :
    l.drop (l.filter (fun p => decide (key p < s))).length = l.filter (fun p => decide (s ≤ key p)) := by
  have h := split_sorted key l hs s
  generalize l.filter (fun p => decide (key p < s)) = A at h ⊢
  generalize l.filter (fun p => decide (s ≤ key p)) = B at h ⊢
  rw [h, List.drop_left]

theorem length_filter_lt_succ (l : List β) (s : ℕ) :
    (l.filter (fun p => decide (key p < s))).length + (l.filter (fun p => decide (key p = s))).length
      = (l.filter (fun p => decide (key p < s + 1))).length := by
  induction l with
  | nil => rfl
  | cons a t ih =>
    rcases Nat.lt_trichotomy (key a) s with h | h | h
    · have h1 : ¬ key a = s := by omega
      have h2 : key a < s + 1 := by omega
      rw [List.filter_cons_of_pos (by simpa using h), List.filter_cons_of_neg (by simpa using h1),
        List.filter_cons_of_pos (by simpa using h2)]
      simp only [List.length_cons]; omega
    · have h1 : ¬ key a < s := by omega
      have h2 : key a < s + 1 := by omega
      rw [List.filter_cons_of_neg (by simpa using h1), List.filter_cons_of_pos (by simpa using h),
        List.filter_cons_of_pos (by simpa using h2)]
      simp only [List.length_cons]; omega
    · have h1 : ¬ key a < s := by omega
      have h2 : ¬ key a < s + 1 := by omega
      have h3 : ¬ key a = s := by omega
      rw [List.filter_cons_of_neg (by simpa using h1), List.filter_cons_of_neg (by simpa using h3),
        List.filter_cons_of_neg (by simpa using h2)]
      exact ih

/-- the block of key `s` of a sorted list sits at offset #(key < s) and has length #(key = s) -/
theorem drop_take_sorted (l : List β) (hs : l.Pairwise fun a b => key a ≤ key b) (s : ℕ) :
    (l.drop (l.filter (fun p => decide (key p < s))).length).take (l.filter (fun p => decide (key p = s))).length
      = l.filter (fun p => decide (key p = s)) := by
  rw [drop_sorted key l hs s]
  set l' := l.filter (fun p => decide (s ≤ key p)) with hl'
  have hs' : l'.Pairwise fun a b => key a ≤ key b := hs.sublist List.filter_sublist
  have h1 : l'.filter (fun p => decide (key p < s + 1)) = l.filter (fun p => decide (key p = s)) := by
    rw [hl', List.filter_filter]
    apply List.filter_congr
    intro b _
    by_cases h : key b = s
    · simp [h]
    · simp [h]; omega
  have := split_sorted key l' hs' (s + 1)
  rw [h1] at this
  rw [this, List.take_left]

theorem sum_block_lengths (l : List β) (N : ℕ) :
    ((List.range N).map fun i => (l.filter (fun p => decide (key p = i))).length).sum
      = (l.filter (fun p => decide (key p < N))).length := by
  induction N with
  | zero => simp
  | succ N ih => rw [List.range_succ, List.map_append, List.sum_append, ih]; simp [length_filter_lt_succ]

end Sorted

/-! ## `np.unique` -/

theorem mem_uniqueNat (l : List ℕ) (a : ℕ) : a ∈ uniqueNat l ↔ a ∈ l := by
  unfold uniqueNat
  simp only [List.mem_filter, List.mem_range, List.contains_iff_mem]
  exact ⟨fun h => h.2, fun h => ⟨Nat.lt_succ_of_le (le_maxCn h), h⟩⟩

/-- `np.unique` of a list whose values are exactly `1..N` -/
theorem uniqueNat_cover (f : List ℕ) (N : ℕ) (h0 : 0 ∉ f) (hb : ∀ a ∈ f, a ≤ N)
    (hc : ∀ a, 1 ≤ a → a ≤ N → a ∈ f) : uniqueNat f = List.range' 1 N := by
  unfold uniqueNat
  have hmax : maxCn f = N := by
    apply le_antisymm (maxCn_le hb)
    rcases Nat.eq_zero_or_pos N with h | h
    · omega
    · exact le_maxCn (hc N h le_rfl)
  rw [hmax, List.range_succ_eq_map, List.filter_cons_of_neg (by simpa using h0), List.filter_map,
    List.range'_eq_map_range]
  have : (List.range N).filter ((fun a => f.contains a) ∘ Nat.succ) = List.range N := by
    rw [List.filter_eq_self]
    intro a ha
    have := hc (a + 1) (by omega) (by have := List.mem_range.mp ha; omega)
    simpa using this
  rw [this]
  apply List.map_congr_left
  intro a _; omega

/-! ## the row walk -/
section Walk
variable {α : Type} [OfNat α 0]

/-- the row the walk produces for particle `i` of a well-formed frame -/
def rowOf (raw : Raw α) (i : ℕ) : Row α :=
  { id := i + 1, cn := (adj raw i).length, nb := (adj raw i).map (· + 1), ws := adjW raw i,
    vol := raw.volumes.getD i 0 }

theorem firsts_shiftIds (l : List (ℕ × ℕ)) : (shiftIds l).map (·.1) = l.map fun p => p.1 + 1 := by
  simp [shiftIds, Gen.Voro.idShift, Function.comp_def]

theorem count_firsts (l : List (ℕ × ℕ)) (s : ℕ) :
    List.count (s + 1) (l.map fun p => p.1 + 1) = (l.filter fun p => decide (p.1 = s)).length := by
  induction l with
  | nil => rfl
  | cons a t ih =>
    by_cases h : a.1 = s
    · rw [List.map_cons, List.count_cons, ih, List.filter_cons_of_pos (by simpa using h)]
      simp [h]
    · rw [List.map_cons, List.count_cons, ih, List.filter_cons_of_neg (by simpa using h)]
      simp [h]

/-- first element of the block of key `s` -/
theorem block_start {β : Type} (key : β → ℕ) (l : List β) (hs : l.Pairwise fun a b => key a ≤ key b) (s : ℕ)
    (hne : ∃ b ∈ l, key b = s) :
    ∃ b, l[(l.filter (fun p => decide (key p < s))).length]? = some b ∧ key b = s := by
  have h := drop_take_sorted key l hs s
  obtain ⟨b0, hb0, hk0⟩ := hne
  have hmem : b0 ∈ l.filter (fun p => decide (key p = s)) := by simp [hb0, hk0]
  cases hB : l.filter (fun p => decide (key p = s)) with
  | nil => rw [hB] at hmem; simp at hmem
  | cons b B' =>
    rw [hB] at h
    have hkb : key b = s := by
      have : b ∈ l.filter (fun p => decide (key p = s)) := by rw [hB]; exact List.mem_cons_self
      simpa using (List.mem_filter.mp this).2
    refine ⟨b, ?_, hkb⟩
    rw [← List.head?_drop]
    cases hd : l.drop (l.filter (fun p => decide (key p < s))).length with
    | nil => rw [hd] at h; simp at h
    | cons x xs =>
      rw [hd] at h
      simp only [List.length_cons, List.take_succ_cons, List.cons.injEq] at h
      simp [h.1]

theorem walk_wf (raw : Raw α) (N : ℕ) (h : WF raw N) :
    ∀ m s, s + m = N →
      Impl.walk (shiftIds raw.nlist) raw.weights raw.volumes ((shiftIds raw.nlist).map (·.1))
        (List.range' (s + 1) m) s ((raw.nlist.filter fun p => decide (p.1 < s)).length)
      = .ok ((List.range' s m).map (rowOf raw)) := by
  intro m
  induction m with
  | zero => intro s _; rfl
  | succ m ih =>
    intro s hsm
    have hsN : s < N := by omega
    rw [List.range'_succ, List.range'_succ, List.map_cons, Impl.walk]
    -- the guard
    obtain ⟨b, hb, hkb⟩ := block_start (fun p : ℕ × ℕ => p.1) raw.nlist h.sorted s
      (by obtain ⟨j, hj⟩ := h.cover s hsN; exact ⟨(s, j), hj, rfl⟩)
    have hfirst : ((shiftIds raw.nlist).getD ((raw.nlist.filter fun p => decide (p.1 < s)).length) (0, 0)).1 = s + 1 := by
      rw [List.getD_eq_getElem?_getD]
      unfold shiftIds
      rw [List.getElem?_map, hb]
      simp [Gen.Voro.idShift, hkb]
    have hguard : Gen.Voro.guardFails (s + 1)
        ((shiftIds raw.nlist).getD ((raw.nlist.filter fun p => decide (p.1 < s)).length) (0, 0)).1 s = false := by
      rw [hfirst]; simp [Gen.Voro.guardFails]
    rw [hguard]
    simp only [Bool.false_eq_true, if_false]
    -- the count and the next offset
    have hcn : Gen.Voro.cnExpr (List.count (s + 1) ((shiftIds raw.nlist).map (·.1)))
        = (raw.nlist.filter fun p => decide (p.1 = s)).length := by
      rw [firsts_shiftIds, count_firsts]; rfl
    rw [hcn, length_filter_lt_succ (fun p : ℕ × ℕ => p.1) raw.nlist s, ih (s + 1) (by omega)]
    simp only
    congr 2
    -- the row
    unfold rowOf adj adjW
    have hdt := drop_take_sorted (fun p : ℕ × ℕ => p.1) raw.nlist h.sorted s
    have hnb : ((List.drop (raw.nlist.filter fun p => decide (p.1 < s)).length (shiftIds raw.nlist)).take
          (raw.nlist.filter fun p => decide (p.1 = s)).length).map (·.2)
        = ((raw.nlist.filter fun p => decide (p.1 = s)).map (·.2)).map (· + 1) := by
      unfold shiftIds
      rw [← List.map_drop, ← List.map_take, hdt]
      simp [Gen.Voro.idShift, Function.comp_def]
    -- weights: the same block of the zipped list
    have hz1 : (raw.nlist.zip raw.weights).map (·.1) = raw.nlist :=
      List.map_fst_zip (by rw [h.wlen])
    have hz2 : (raw.nlist.zip raw.weights).map (·.2) = raw.weights :=
      List.map_snd_zip (by rw [h.wlen])
    have hzs : (raw.nlist.zip raw.weights).Pairwise fun a b => a.1.1 ≤ b.1.1 := by
      have := h.sorted
      rw [← hz1, List.pairwise_map] at this
      exact this
    have hlen : ∀ P : ℕ × ℕ → Bool, ((raw.nlist.zip raw.weights).filter fun p => P p.1).length
        = (raw.nlist.filter P).length := by
      intro P
      conv_rhs => rw [← hz1, List.filter_map, List.length_map]
      rfl
    have hzt := drop_take_sorted (fun p : (ℕ × ℕ) × α => p.1.1) (raw.nlist.zip raw.weights) hzs s
    rw [hlen (fun p => decide (p.1 < s)), hlen (fun p => decide (p.1 = s))] at hzt
    have hws : (List.drop (raw.nlist.filter fun p => decide (p.1 < s)).length raw.weights).take
          (raw.nlist.filter fun p => decide (p.1 = s)).length
        = ((raw.nlist.zip raw.weights).filter fun p => decide (p.1.1 = s)).map (·.2) := by
      rw [← hzt, List.map_take, List.map_drop, hz2]
    rw [hnb, hws, List.length_map]

theorem frameRows_wf (raw : Raw α) (N : ℕ) (h : WF raw N) :
    Impl.frameRows raw = .ok ((List.range N).map (rowOf raw)) := by
  unfold Impl.frameRows
  simp only
  have hu : uniqueNat ((shiftIds raw.nlist).map (·.1)) = List.range' 1 N := by
    rw [firsts_shiftIds]
    apply uniqueNat_cover
    · simp
    · intro a ha
      obtain ⟨p, hp, rfl⟩ := List.mem_map.mp ha
      have := h.bound p hp; omega
    · intro a h1 h2
      obtain ⟨j, hj⟩ := h.cover (a - 1) (by omega)
      exact List.mem_map.mpr ⟨(a - 1, j), hj, by simp; omega⟩
  rw [hu]
  have := walk_wf raw N h N 0 (by omega)
  simp only [Nat.zero_add, Nat.not_lt_zero, decide_false, List.filter_false, List.length_nil] at this
  rw [this, List.range_eq_range']

omit [OfNat α 0] in
theorem length_adjW (raw : Raw α) (h : raw.weights.length = raw.nlist.length) (i : ℕ) :
    (adjW raw i).length = (adj raw i).length := by
  unfold adjW adj
  rw [List.length_map, List.length_map]
  have hz1 : (raw.nlist.zip raw.weights).map (·.1) = raw.nlist := List.map_fst_zip (by rw [h])
  conv_rhs => rw [← hz1, List.filter_map, List.length_map]
  rfl

theorem range_map_rowLine (n : ℕ) (f : ℕ → List String) :
    (List.range n).map (fun i => rowLine i (f i)) = renderRows 0 ((List.range n).map f) := by
  rw [renderRows_eq_map]
  simp only [List.length_map, List.length_range, Nat.zero_add]
  apply List.map_congr_left
  intro i hi
  have hi' := List.mem_range.mp hi
  rw [List.getD_eq_getElem?_getD, List.getElem?_map, List.getElem?_range hi']
  rfl

theorem nbLines_wf (raw : Raw α) (N : ℕ) :
    (Gen.Voro.hdrNeighbor :: ((List.range N).map (rowOf raw)).map Row.nbLine) = Spec.neighborFrame raw N := by
  unfold Spec.neighborFrame adjTable
  rw [← lines_eq_render N (fun i => (adj raw i).length) (adj raw) (fun _ _ => rfl), List.map_map]
  have hh : Gen.Voro.hdrNeighbor = header := rfl
  rw [hh]
  congr 1
  apply List.map_congr_left
  intro i _
  simp [Row.nbLine, rowOf, idToks, idToksOff, Function.comp_def]

theorem wLines_wf (fmt : ℕ → α → String) (ndim : ℕ) (raw : Raw α) (N : ℕ)
    (h : raw.weights.length = raw.nlist.length) :
    (bondHeader ndim :: ((List.range N).map (rowOf raw)).map (Row.wLine fmt)) = Spec.bondFrame fmt ndim raw N := by
  unfold Spec.bondFrame renderTok
  rw [← range_map_rowLine, List.map_map]
  congr 1
  apply List.map_congr_left
  intro i _
  simp [Row.wLine, rowOf, rowLine, Gen.Voro.wDecimals, length_adjW raw h i]

theorem oLines_wf (fmt : ℕ → α → String) (raw : Raw α) (N : ℕ) :
    ((List.range N).map (rowOf raw)).map (Row.oLine fmt) = Spec.overallRows fmt raw N := by
  unfold Spec.overallRows
  rw [List.map_map]
  apply List.map_congr_left
  intro i _
  simp [Row.oLine, rowOf, Gen.Voro.volDecimals]

/-- every frame well-formed (with its own particle number `volumes.length`): the three files are the Spec frames -/
theorem framesLines_wf (fmt : ℕ → α → String) (ndim : ℕ) (frames : List (Raw α))
    (h : ∀ raw ∈ frames, WF raw raw.volumes.length) :
    Impl.framesLines fmt ndim frames =
      .ok (frames.flatMap (fun raw => Spec.neighborFrame raw raw.volumes.length),
           frames.flatMap (fun raw => Spec.bondFrame fmt ndim raw raw.volumes.length),
           frames.flatMap (fun raw => Spec.overallRows fmt raw raw.volumes.length)) := by
  induction frames with
  | nil => rfl
  | cons raw rest ih =>
    have hw := h raw List.mem_cons_self
    rw [Impl.framesLines, frameRows_wf raw _ hw]
    simp only
    rw [ih fun r hr => h r (List.mem_cons_of_mem _ hr)]
    simp only [List.flatMap_cons]
    rw [nbLines_wf, wLines_wf fmt ndim raw _ hw.wlen, oLines_wf]

/-! ### the guard -/

theorem walk_ok (ids : List (ℕ × ℕ)) (w vol : List α) (firsts : List ℕ) :
    ∀ (us : List ℕ) (i nn : ℕ) (rows : List (Row α)),
      Impl.walk ids w vol firsts us i nn = .ok rows → us = List.range' (i + 1) us.length ∧ rows.length = us.length := by
  intro us
  induction us with
  | nil => intro i nn rows h; simp [Impl.walk] at h; simp [← h]
  | cons a t ih =>
    intro i nn rows h
    rw [Impl.walk] at h
    split at h
    · simp at h
    · rename_i hg
      simp only at h
      split at h
      · simp at h
      · rename_i rest hrest
        simp only [Except.ok.injEq] at h
        obtain ⟨h1, h2⟩ := ih _ _ _ hrest
        have ha : a = i + 1 := by
          simp only [Gen.Voro.guardFails, Bool.or_eq_true, bne_iff_ne, ne_eq, not_or, not_not] at hg
          omega
        subst h
        refine ⟨?_, by simp [h2]⟩
        rw [List.length_cons, List.range'_succ, ← ha, ha]
        congr 1

theorem walk_error (ids : List (ℕ × ℕ)) (w vol : List α) (firsts : List ℕ) :
    ∀ (us : List ℕ) (i nn : ℕ) (e : String),
      Impl.walk ids w vol firsts us i nn = .error e → e = "neighbor list not sorted" := by
  intro us
  induction us with
  | nil => intro i nn e h; simp [Impl.walk] at h
  | cons a t ih =>
    intro i nn e h
    rw [Impl.walk] at h
    split at h
    · simp only [Except.error.injEq] at h; exact h.symm
    · simp only at h
      split at h
      · rename_i e' he'
        simp only [Except.error.injEq] at h
        subst h
        exact ih _ _ _ he'
      · simp at h

/-- whenever the guard lets a frame through, the first indices that occur are exactly `0 .. K-1` for the number `K`
of rows written -/
theorem frameRows_ok_cover (raw : Raw α) (rows : List (Row α)) (h : Impl.frameRows raw = .ok rows) (a : ℕ) :
    (∃ j, (a, j) ∈ raw.nlist) ↔ a < rows.length := by
  unfold Impl.frameRows at h
  simp only at h
  obtain ⟨h1, h2⟩ := walk_ok _ _ _ _ _ _ _ _ h
  have hm := mem_uniqueNat ((shiftIds raw.nlist).map (·.1)) (a + 1)
  rw [h1, ← h2, List.mem_range'_1, firsts_shiftIds] at hm
  constructor
  · rintro ⟨j, hj⟩
    have : a + 1 ∈ raw.nlist.map fun p => p.1 + 1 := List.mem_map.mpr ⟨(a, j), hj, rfl⟩
    have := hm.mpr this
    omega
  · intro ha
    have := hm.mp ⟨by omega, by omega⟩
    obtain ⟨p, hp, hpa⟩ := List.mem_map.mp this
    exact ⟨p.2, by have : p.1 = a := by omega
                   rw [← this]; exact hp⟩

theorem framesLines_error (fmt : ℕ → α → String) (ndim : ℕ) (frames : List (Raw α)) (raw : Raw α) (e : String)
    (hm : raw ∈ frames) (he : Impl.frameRows raw = .error e) :
    Impl.framesLines fmt ndim frames = .error "neighbor list not sorted" := by
  induction frames with
  | nil => simp at hm
  | cons r rest ih =>
    rw [Impl.framesLines]
    cases hr : Impl.frameRows r with
    | error e' =>
      have : e' = "neighbor list not sorted" := by
        unfold Impl.frameRows at hr
        exact walk_error _ _ _ _ _ _ _ _ hr
      simp [this]
    | ok rows =>
      simp only
      rcases List.mem_cons.mp hm with h | h
      · subst h; rw [hr] at he; simp at he
      · rw [ih h]

end Walk

/-! ## what is written: relation and bonds -/
section Written
variable {α : Type}

theorem repr_inj {a b : ℕ} (h : Nat.repr a = Nat.repr b) : a = b := by
  have := congrArg String.toNat? h
  simpa [Nat.toNat?_repr] using this

theorem mem_adj (raw : Raw α) (i j : ℕ) : j ∈ adj raw i ↔ (i, j) ∈ raw.nlist := by
  unfold adj
  simp only [List.mem_map, List.mem_filter, decide_eq_true_eq]
  constructor
  · rintro ⟨p, ⟨hp, rfl⟩, rfl⟩; exact hp
  · intro h; exact ⟨(i, j), ⟨h, rfl⟩, rfl⟩

theorem count_adj (raw : Raw α) (i j : ℕ) : (adj raw i).count j = raw.nlist.count (i, j) := by
  unfold adj
  induction raw.nlist with
  | nil => rfl
  | cons p t ih =>
    by_cases h1 : p.1 = i
    · rw [List.filter_cons_of_pos (by simpa using h1), List.map_cons, List.count_cons, List.count_cons, ih]
      congr 1
      by_cases h2 : p.2 = j
      · have : p = (i, j) := Prod.ext h1 h2
        simp [this]
      · have : ¬ p = (i, j) := fun e => h2 (by rw [e])
        simp [h2, this]
    · rw [List.filter_cons_of_neg (by simpa using h1), List.count_cons, ih]
      have : ¬ p = (i, j) := fun e => h1 (by rw [e])
      simp [this]

/-- line `i+1` of a rendered neighbour frame -/
theorem neighborFrame_line (raw : Raw α) (N i : ℕ) (hi : i < N) :
    (Spec.neighborFrame raw N).getD (i + 1) [] = rowLine i (idToks (adj raw i)) := by
  unfold Spec.neighborFrame render renderTok adjTable
  rw [List.getD_cons_succ]
  have := getD_renderRows 0 (((List.range N).map (adj raw)).map idToks) [] i (by simpa using hi)
  rw [List.append_nil, Nat.zero_add] at this
  rw [this]
  congr 1
  rw [List.getD_eq_getElem?_getD, List.getElem?_map, List.getElem?_map, List.getElem?_range hi]
  rfl

/-- line `i+1` of any rendered token frame -/
theorem renderTok_line (hdr : Line) (N i : ℕ) (hi : i < N) (f : ℕ → List String) :
    (renderTok hdr ((List.range N).map f)).getD (i + 1) [] = rowLine i (f i) := by
  unfold renderTok
  rw [List.getD_cons_succ]
  have := getD_renderRows 0 ((List.range N).map f) [] i (by simpa using hi)
  rw [List.append_nil, Nat.zero_add] at this
  rw [this]
  congr 1
  rw [List.getD_eq_getElem?_getD, List.getElem?_map, List.getElem?_range hi]
  rfl

theorem length_renderTok (hdr : Line) (fr : List (List String)) : (renderTok hdr fr).length = fr.length + 1 := by
  simp [renderTok, length_renderRows]

theorem fileRel_neighborFrame (raw : Raw α) (N i j : ℕ) (hi : i < N) :
    fileRel (Spec.neighborFrame raw N) i j ↔ (i, j) ∈ raw.nlist := by
  unfold fileRel
  rw [neighborFrame_line raw N i hi, ← mem_adj]
  simp only [rowLine, List.drop_succ_cons, List.drop_zero, idToks, idToksOff, List.mem_map]
  constructor
  · rintro ⟨j', hj', he⟩
    have := repr_inj he
    have : j' = j := by omega
    rw [← this]; exact hj'
  · intro h; exact ⟨j, h, rfl⟩

theorem filter_lt_succ_sorted {β : Type} (key : β → ℕ) (l : List β) (hs : l.Pairwise fun a b => key a ≤ key b) (N : ℕ) :
    l.filter (fun p => decide (key p < N)) ++ l.filter (fun p => decide (key p = N))
      = l.filter (fun p => decide (key p < N + 1)) := by
  set l' := l.filter (fun p => decide (key p < N + 1)) with hl'
  have hs' : l'.Pairwise fun a b => key a ≤ key b := hs.sublist List.filter_sublist
  have h := split_sorted key l' hs' N
  have h1 : l'.filter (fun p => decide (key p < N)) = l.filter (fun p => decide (key p < N)) := by
    rw [hl', List.filter_filter]
    apply List.filter_congr
    intro b _
    by_cases hb : key b < N
    · simp [hb]; omega
    · simp [hb]
  have h2 : l'.filter (fun p => decide (N ≤ key p)) = l.filter (fun p => decide (key p = N)) := by
    rw [hl', List.filter_filter]
    apply List.filter_congr
    intro b _
    by_cases hb : key b = N
    · simp [hb]
    · simp [hb]; omega
  rw [h1, h2] at h
  exact h.symm

/-- a sorted list is the concatenation of its blocks -/
theorem flatMap_blocks {β : Type} (key : β → ℕ) (l : List β) (hs : l.Pairwise fun a b => key a ≤ key b) (N : ℕ) :
    (List.range N).flatMap (fun i => l.filter (fun p => decide (key p = i)))
      = l.filter (fun p => decide (key p < N)) := by
  induction N with
  | zero => simp
  | succ N ih => rw [List.range_succ, List.flatMap_append, ih]; simp [filter_lt_succ_sorted key l hs N]

/-- freud's bond list `(i, j, weight)` is exactly what the rows of the files contain, in the same order -/
theorem bonds_preserved (raw : Raw α) (N : ℕ) (h : WF raw N) :
    (List.range N).flatMap (fun i => ((adj raw i).zip (adjW raw i)).map fun q => (i, q.1, q.2))
      = (raw.nlist.zip raw.weights).map fun p => (p.1.1, p.1.2, p.2) := by
  have hz1 : (raw.nlist.zip raw.weights).map (·.1) = raw.nlist := List.map_fst_zip (by rw [h.wlen])
  have hzs : (raw.nlist.zip raw.weights).Pairwise fun a b => a.1.1 ≤ b.1.1 := by
    have := h.sorted
    rw [← hz1, List.pairwise_map] at this
    exact this
  have hb : ∀ p ∈ raw.nlist.zip raw.weights, p.1.1 < N := by
    intro p hp
    exact h.bound p.1 (by rw [← hz1]; exact List.mem_map.mpr ⟨p, hp, rfl⟩)
  have hrow : ∀ i, ((adj raw i).zip (adjW raw i)).map (fun q => (i, q.1, q.2))
      = ((raw.nlist.zip raw.weights).filter fun p => decide (p.1.1 = i)).map fun p => (p.1.1, p.1.2, p.2) := by
    intro i
    have hadj : adj raw i = ((raw.nlist.zip raw.weights).filter fun p => decide (p.1.1 = i)).map (·.1.2) := by
      unfold adj
      conv_lhs => rw [← hz1, List.filter_map, List.map_map]
      rfl
    rw [hadj]
    unfold adjW
    rw [List.zip_map', List.map_map]
    apply List.map_congr_left
    intro p hp
    have := (List.mem_filter.mp hp).2
    simp only [decide_eq_true_eq] at this
    simp [this]
  simp only [hrow]
  rw [← List.map_flatMap, flatMap_blocks _ _ hzs N, List.filter_eq_self.mpr (by intro p hp; simpa using hb p hp)]

end Written

/-! ## `%.6f` -/
section Round
variable {K : Type} [Field K] [LinearOrder K] [IsStrictOrderedRing K]

/-- `float("%.6f" % x)`: `x` rounded to 6 decimals -/
def round6 (rint : K → ℤ) (x : K) : K := (rint (x * 10 ^ 6) : K) / 10 ^ 6

theorem round6_err (rint : K → ℤ) (hr : IsRintHE rint) (x : K) : |round6 rint x - x| ≤ 1 / 2 / 10 ^ 6 := by
  unfold round6
  have h := hr.near (x * 10 ^ 6)
  have hp : (0 : K) < 10 ^ 6 := by positivity
  have e : (rint (x * 10 ^ 6) : K) / 10 ^ 6 - x = -((x * 10 ^ 6 - (rint (x * 10 ^ 6) : K)) / 10 ^ 6) := by
    field_simp; ring
  rw [e, abs_neg, abs_div, abs_of_pos hp]
  exact div_le_div_of_nonneg_right h hp.le

theorem round6_close (rint : K → ℤ) (hr : IsRintHE rint) (a b : K) :
    |round6 rint a - round6 rint b| ≤ |a - b| + 1 / 10 ^ 6 := by
  have h1 := round6_err rint hr a
  have h2 := round6_err rint hr b
  have e : round6 rint a - round6 rint b = (round6 rint a - a) + (a - b) - (round6 rint b - b) := by ring
  rw [e]
  have h3 := abs_sub (round6 rint a - a + (a - b)) (round6 rint b - b)
  have h4 := abs_add_le (round6 rint a - a) (a - b)
  have e2 : (1 : K) / 10 ^ 6 = 1 / 2 / 10 ^ 6 + 1 / 2 / 10 ^ 6 := by ring
  linarith

theorem round6_nonneg (rint : K → ℤ) (hr : IsRintHE rint) (x : K) (hx : 0 ≤ x) : 0 ≤ round6 rint x := by
  unfold round6
  have hp : (0 : K) < 10 ^ 6 := by positivity
  apply div_nonneg _ hp.le
  have h := abs_le.mp (hr.near (x * 10 ^ 6))
  have h0 : (0 : K) ≤ x * 10 ^ 6 := mul_nonneg hx hp.le
  generalize x * 10 ^ 6 = y at h h0 ⊢
  have : (-1 : K) < (rint y : K) := by linarith [h.2]
  have : (-1 : ℤ) < rint y := by exact_mod_cast this
  exact_mod_cast (show (0 : ℤ) ≤ rint y by omega)

theorem round6_pos (rint : K → ℤ) (hr : IsRintHE rint) (x : K) (hx : 1 / 10 ^ 6 ≤ x) : 0 < round6 rint x := by
  unfold round6
  have hp : (0 : K) < 10 ^ 6 := by positivity
  apply div_pos _ hp
  have h := abs_le.mp (hr.near (x * 10 ^ 6))
  have h1 : (1 : K) ≤ x * 10 ^ 6 := by
    have := mul_le_mul_of_nonneg_right hx hp.le
    rwa [div_mul_cancel₀ _ hp.ne'] at this
  generalize x * 10 ^ 6 = y at h h1 ⊢
  linarith [h.2]

theorem sum_round6 (rint : K → ℤ) (hr : IsRintHE rint) (l : List K) :
    |(l.map (round6 rint)).sum - l.sum| ≤ (l.length : K) * (1 / 2 / 10 ^ 6) := by
  induction l with
  | nil => simp
  | cons a t ih =>
    simp only [List.map_cons, List.sum_cons, List.length_cons]
    have e : round6 rint a + (t.map (round6 rint)).sum - (a + t.sum)
        = (round6 rint a - a) + ((t.map (round6 rint)).sum - t.sum) := by ring
    rw [e]
    have := abs_add_le (round6 rint a - a) ((t.map (round6 rint)).sum - t.sum)
    have h1 := round6_err rint hr a
    push_cast
    linarith

end Round

end Pms.Voro
