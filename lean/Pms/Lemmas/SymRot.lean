import Pms.Lemmas.Sym
import Pms.Model.LocalOrder
import Pms.Model.Sq
import Mathlib.LinearAlgebra.Matrix.Charpoly.Basic
import Mathlib.Algebra.BigOperators.Field
import Mathlib.Data.Complex.Basic
import Mathlib.Analysis.Complex.Norm

/-! Helper lemmas for C07 (rotation part and S(q) part): gyration tensor of a rotated cluster, permutation matrices,
the addition-theorem kernel of Σ_m |q_lm|², density modes under relabelling. -/
open Finset
namespace Pms.Sym
open Pms Pms.Pbc

section field
variable {K : Type} [Field K]

/-- the gyration tensor of the rotated cluster is `R G Rᵀ` -/
theorem gyr_rotate (N d : ℕ) (Rot P : ℕ → ℕ → K) (m n : ℕ) :
    LocalOrder.gyrSpec N (rotate d Rot P) m n
      = ∑ a ∈ range d, ∑ b ∈ range d, Rot m a * Rot n b * LocalOrder.gyrSpec N P a b := by
  have hmean : ∀ x, LocalOrder.meanCol N (rotate d Rot P) x = ∑ a ∈ range d, Rot x a * LocalOrder.meanCol N P a := by
    intro x
    simp only [LocalOrder.meanCol, sumRange_eq, rotate, matVec_eq]
    rw [Finset.sum_comm, Finset.sum_div]
    refine Finset.sum_congr rfl fun a _ => ?_
    rw [← Finset.mul_sum, mul_div_assoc]
  have hc : ∀ i x, rotate d Rot P i x - LocalOrder.meanCol N (rotate d Rot P) x
      = ∑ a ∈ range d, Rot x a * (P i a - LocalOrder.meanCol N P a) := by
    intro i x
    rw [hmean]
    simp only [rotate, matVec_eq, ← Finset.sum_sub_distrib]
    exact Finset.sum_congr rfl fun a _ => by ring
  simp only [LocalOrder.gyrSpec, sumRange_eq]
  simp only [hc]
  have e : ∀ i ∈ range N, (∑ a ∈ range d, Rot m a * (P i a - LocalOrder.meanCol N P a)) *
      (∑ b ∈ range d, Rot n b * (P i b - LocalOrder.meanCol N P b))
      = ∑ a ∈ range d, ∑ b ∈ range d, Rot m a * Rot n b *
          ((P i a - LocalOrder.meanCol N P a) * (P i b - LocalOrder.meanCol N P b)) := by
    intro i _
    rw [Finset.sum_mul_sum]
    exact Finset.sum_congr rfl fun a _ => Finset.sum_congr rfl fun b _ => by ring
  rw [Finset.sum_congr rfl e, Finset.sum_comm, Finset.sum_div]
  refine Finset.sum_congr rfl fun a _ => ?_
  rw [Finset.sum_comm, Finset.sum_div]
  refine Finset.sum_congr rfl fun b _ => ?_
  rw [← Finset.mul_sum, mul_div_assoc]

/-- an index-function matrix as a Mathlib matrix -/
def toMat (d : ℕ) (M : ℕ → ℕ → K) : Matrix (Fin d) (Fin d) K := fun i j => M i.val j.val

/-- the matrix of the axis permutation `π`: `(P v)_k = v_{π k}` -/
def permMatrix (π : ℕ → ℕ) : ℕ → ℕ → K := fun k a => if a = π k then 1 else 0

theorem matVec_permMatrix (d : ℕ) (π : Equiv.Perm ℕ) (hπ : PermBelow d π) (v : ℕ → K) (k : ℕ) (hk : k < d) :
    matVec d (permMatrix π) v k = permVec π v k := by
  simp only [matVec_eq, permMatrix, permVec, ite_mul, one_mul, zero_mul]
  rw [Finset.sum_ite_eq' (range d) (π k)]
  simp [(hπ k).mpr hk]

/-- a density mode is invariant under a relabelling of the particles -/
theorem mode_relabel (N : ℕ) (σ : Equiv.Perm ℕ) (hσ : PermBelow N σ) (A c s : ℕ → K) :
    Sq.mode N (relabel σ A) (relabel σ c) (relabel σ s) = Sq.mode N A c s := by
  simp only [Sq.mode, sumRange_eq, relabel]
  rw [sum_perm N σ hσ (fun i => A i * c i), sum_perm N σ hσ (fun i => A i * -(s i))]

end field

/-- Σ_m q_lm conj(q_lm) of the bond average, written with the addition-theorem kernel `F` -/
theorem qlm_sum_kernel (L : ℕ) (Y : (ℕ → ℝ) → ℕ → ℂ) (F : ℝ → ℂ)
    (hadd : ∀ u v : ℕ → ℝ, ∑ k ∈ range L, Y u k * (starRingEnd ℂ) (Y v k) = F (dot 3 u v))
    (n : ℕ) (w : ℕ → ℕ → ℝ) :
    ∑ k ∈ range L, ((∑ j ∈ range n, Y (w j) k) / (n : ℂ)) * (starRingEnd ℂ) ((∑ j ∈ range n, Y (w j) k) / (n : ℂ))
      = (∑ j ∈ range n, ∑ j' ∈ range n, F (dot 3 (w j) (w j'))) / ((n : ℂ) * (n : ℂ)) := by
  have e : ∀ k ∈ range L, ((∑ j ∈ range n, Y (w j) k) / (n : ℂ)) * (starRingEnd ℂ) ((∑ j ∈ range n, Y (w j) k) / (n : ℂ))
      = (∑ j ∈ range n, ∑ j' ∈ range n, Y (w j) k * (starRingEnd ℂ) (Y (w j') k)) / ((n : ℂ) * (n : ℂ)) := by
    intro k _
    rw [map_div₀, map_sum, Complex.conj_natCast, div_mul_div_comm, Finset.sum_mul_sum]
  rw [Finset.sum_congr rfl e, ← Finset.sum_div]
  congr 1
  rw [Finset.sum_comm]
  refine Finset.sum_congr rfl fun j _ => ?_
  rw [Finset.sum_comm]
  exact Finset.sum_congr rfl fun j' _ => hadd (w j) (w j')

end Pms.Sym
