import Pms.Lemmas.Boo
import Pms.Props.C08
import Mathlib.Analysis.SpecialFunctions.Complex.Arg
import Mathlib.Analysis.SpecialFunctions.Trigonometric.Inverse

/-! Helper lemmas for C09_angles: the unit-vector form of Y_lm used by the model equals the C08 definition at
θ = arccos(z/r), φ = arg(x + iy). -/
open Finset
namespace Pms.Boo

theorem castPoly_eq_map (p : List Rat) : Pms.Sph.castPoly p = p.map (fun (q : ℚ) => (q : ℝ)) := by
  induction p with
  | nil => rfl
  | cons a t ih => simp [Pms.Sph.castPoly, ih]

theorem powN_eq_pow (x : ℂ) (n : ℕ) : powN x n = x ^ n := by
  induction n with
  | zero => simp [powN]
  | succ n ih => rw [powN, ih, pow_succ]

theorem polyEval_cast (p : List Rat) (t : ℝ) :
    Pms.Sph.polyEval (p.map cOps.ofRat) t = Pms.Sph.polyEval (Pms.Sph.castPoly p) t := by
  rw [castPoly_eq_map]; rfl

/-- polar form of the horizontal part of the bond: sinθ·e^{iφ} = (x+iy)/r for θ = arccos(z/r), φ = arg(x+iy) -/
theorem polar_bond (x y z : ℝ) (hr : 0 < x * x + y * y + z * z) :
    let r := Real.sqrt (x * x + y * y + z * z)
    let θ := Real.arccos (z / r)
    let φ := Complex.arg ⟨x, y⟩
    Real.cos θ = z / r ∧
    ((Real.sin θ : ℝ) : ℂ) * Complex.exp ((φ : ℂ) * Complex.I) = (⟨x, y⟩ : ℂ) / (r : ℂ) := by
  intro r θ φ
  have hr0 : 0 < r := Real.sqrt_pos.2 hr
  have hrr : r * r = x * x + y * y + z * z := Real.mul_self_sqrt hr.le
  have hρ : ‖(⟨x, y⟩ : ℂ)‖ * ‖(⟨x, y⟩ : ℂ)‖ = x * x + y * y := by
    rw [Complex.norm_mul_self_eq_normSq, Complex.normSq_apply]
  have ht2 : (z / r) ^ 2 ≤ 1 := by
    rw [div_pow, div_le_one (by positivity)]
    nlinarith [mul_self_nonneg x, mul_self_nonneg y]
  have ht : -1 ≤ z / r ∧ z / r ≤ 1 := abs_le.1 ((sq_le_one_iff_abs_le_one _).1 ht2)
  refine ⟨Real.cos_arccos ht.1 ht.2, ?_⟩
  have hsin : Real.sin θ = ‖(⟨x, y⟩ : ℂ)‖ / r := by
    show Real.sin (Real.arccos (z / r)) = _
    rw [Real.sin_arccos]
    have : 1 - (z / r) ^ 2 = (‖(⟨x, y⟩ : ℂ)‖ / r) ^ 2 := by
      rw [div_pow, div_pow]
      field_simp
      nlinarith
    rw [this, Real.sqrt_sq (by positivity)]
  rw [hsin]
  have h := Complex.norm_mul_exp_arg_mul_I (⟨x, y⟩ : ℂ)
  push_cast
  rw [div_mul_eq_mul_div, h]

theorem exp_pow_pos (s : ℂ) (φ : ℝ) (v : ℂ) (a : ℕ) (h : s * Complex.exp ((φ : ℂ) * Complex.I) = v) :
    Complex.exp (((a : ℤ) : ℂ) * φ * Complex.I) * s ^ a = v ^ a := by
  rw [← h, mul_pow, ← Complex.exp_nat_mul]
  push_cast
  rw [mul_comm, mul_assoc]

theorem exp_pow_neg (s : ℝ) (φ : ℝ) (v : ℂ) (a : ℕ) (h : (s : ℂ) * Complex.exp ((φ : ℂ) * Complex.I) = v) :
    Complex.exp (((-(a : ℤ) : ℤ) : ℂ) * φ * Complex.I) * (s : ℂ) ^ a = ((starRingEnd ℂ) v) ^ a := by
  have hc : (starRingEnd ℂ) v = (s : ℂ) * Complex.exp (-((φ : ℂ) * Complex.I)) := by
    rw [← h, map_mul, Complex.conj_ofReal, ← Complex.exp_conj, map_mul, Complex.conj_ofReal, Complex.conj_I, mul_neg]
  rw [hc, mul_pow, ← Complex.exp_nat_mul]
  push_cast
  rw [mul_comm]
  congr 2
  ring

/-- the unit-vector form of Y_lm executed by the model is the C08 definition of Y_lm at the bond angles -/
theorem bondY_eq_Y (l : ℕ) (m : ℤ) (x y z : ℝ) (hr : 0 < x * x + y * y + z * z) :
    bondY cOps l x y z m
      = Pms.Sph.Y l m (Real.arccos (z / Real.sqrt (x * x + y * y + z * z))) (Complex.arg ⟨x, y⟩) := by
  obtain ⟨hcos, hpol⟩ := polar_bond x y z hr
  have hr0 : 0 < Real.sqrt (x * x + y * y + z * z) := Real.sqrt_pos.2 hr
  unfold bondY bondYWith Pms.Sph.Y
  simp only [polyEval_cast]
  simp only [cOps, powN_eq_pow, hcos]
  generalize hR : Real.sqrt (x * x + y * y + z * z) = r at *
  generalize hP : Pms.Sph.polyEval (Pms.Sph.castPoly (Pms.Sph.legendreD l m.natAbs)) (z / r) = P
  have hrc : (r : ℂ) ≠ 0 := by exact_mod_cast hr0.ne'
  by_cases hm : 0 ≤ m
  · have hma : m = (m.natAbs : ℤ) := (Int.natAbs_of_nonneg hm).symm
    have key := exp_pow_pos _ _ _ m.natAbs hpol
    rw [← hma] at key
    have hu : (⟨x / r, if m ≥ 0 then y / r else -(y / r)⟩ : ℂ) = (⟨x, y⟩ : ℂ) / (r : ℂ) := by
      rw [if_pos hm]
      apply Complex.ext <;> simp [Complex.div_ofReal_re, Complex.div_ofReal_im, neg_div]
    rw [hu, ← key]
    push_cast
    ring
  · have hm' : m < 0 := not_le.1 hm
    have hma : m = -(m.natAbs : ℤ) := by omega
    have key := exp_pow_neg _ _ _ m.natAbs hpol
    rw [← hma] at key
    have hu : (⟨x / r, if m ≥ 0 then y / r else -(y / r)⟩ : ℂ) = (starRingEnd ℂ) ((⟨x, y⟩ : ℂ) / (r : ℂ)) := by
      rw [if_neg hm]
      apply Complex.ext <;> simp [Complex.div_ofReal_re, Complex.div_ofReal_im, neg_div]
    rw [hu, ← key]
    push_cast
    ring

end Pms.Boo
