import Pms.Model.Voro
import Pms.Lemmas.Basic
import Mathlib.Algebra.BigOperators.Ring.Finset
import Mathlib.Algebra.BigOperators.Field
import Mathlib.Tactic.Ring
import Mathlib.Tactic.FieldSimp
import Mathlib.LinearAlgebra.Matrix.NonsingularInverse

/-! Lemmas for C20: closed forms of the loops of `VolumeMatrix`, row sums, refinement of the Spec. -/
open Finset
namespace Pms.Voro
open Pms

theorem block_index {n I c : ℕ} (h1 : n * I ≤ c) (h2 : c < n * I + n) : c / n = I ∧ c % n = c - n * I := by
  have hn : 0 < n := by
    rcases Nat.eq_zero_or_pos n with h | h
    · subst h; omega
    · exact h
  obtain ⟨r, rfl⟩ : ∃ r, c = n * I + r := ⟨c - n * I, by omega⟩
  have hr : r < n := by omega
  refine ⟨?_, ?_⟩
  · rw [Nat.mul_add_div hn, Nat.div_eq_of_lt hr]; rfl
  · rw [Nat.mul_add_mod, Nat.mod_eq_of_lt hr]; omega

theorem index_div_mod {n i d : ℕ} (hd : d < n) : (n * i + d) / n = i ∧ (n * i + d) % n = d := by
  have := block_index (n := n) (I := i) (c := n * i + d) (by omega) (by omega)
  refine ⟨this.1, ?_⟩
  rw [this.2]; omega

section VM
variable {K : Type} [Field K]

omit [Field K] in
theorem place_inner (ndim : ℕ) (fdv : ℕ → ℕ → ℕ → K) (A : ℕ → ℕ → K) (i : ℕ) :
    ∀ J k c, foldRange J (fun A j => Impl.place ndim fdv A i j) A k c
      = if k ≠ i ∧ ndim * i ≤ c ∧ c < ndim * i + J then fdv i (c - ndim * i) k else A k c := by
  intro J
  induction J with
  | zero =>
    intro k c
    have : ¬ (k ≠ i ∧ ndim * i ≤ c ∧ c < ndim * i + 0) := by omega
    rw [if_neg this]; rfl
  | succ J ih =>
    intro k c
    rw [foldRange_succ]
    have hstep : ∀ B : ℕ → ℕ → K, Impl.place ndim fdv B i J k c
        = if c = ndim * i + J ∧ k ≠ i then fdv i J k else B k c := fun B => rfl
    show Impl.place ndim fdv (foldRange J (fun A j => Impl.place ndim fdv A i j) A) i J k c = _
    rw [hstep, ih]
    generalize ndim * i = b
    by_cases hc : c = b + J
    · by_cases hk : k = i
      · have h1 : ¬ (c = b + J ∧ k ≠ i) := by tauto
        have h2 : ¬ (k ≠ i ∧ b ≤ c ∧ c < b + J) := by tauto
        have h3 : ¬ (k ≠ i ∧ b ≤ c ∧ c < b + (J + 1)) := by tauto
        rw [if_neg h1, if_neg h2, if_neg h3]
      · have h1 : c = b + J ∧ k ≠ i := ⟨hc, hk⟩
        have h3 : k ≠ i ∧ b ≤ c ∧ c < b + (J + 1) := ⟨hk, by omega, by omega⟩
        rw [if_pos h1, if_pos h3]
        congr 1; omega
    · have h1 : ¬ (c = b + J ∧ k ≠ i) := by tauto
      rw [if_neg h1]
      by_cases h2 : k ≠ i ∧ b ≤ c ∧ c < b + J
      · have h3 : k ≠ i ∧ b ≤ c ∧ c < b + (J + 1) := ⟨h2.1, h2.2.1, by omega⟩
        rw [if_pos h2, if_pos h3]
      · have h3 : ¬ (k ≠ i ∧ b ≤ c ∧ c < b + (J + 1)) := by
          rintro ⟨a1, a2, a3⟩; exact h2 ⟨a1, a2, by omega⟩
        rw [if_neg h2, if_neg h3]

/-- after the perturbation loops: column `ndim*i+j` holds the finite differences of all cells but `i` -/
theorem offDiag_closed (ndim : ℕ) (fdv : ℕ → ℕ → ℕ → K) :
    ∀ I k c, foldRange I (fun A i => foldRange ndim (fun A j => Impl.place ndim fdv A i j) A) (fun _ _ => (0 : K)) k c
      = if c < ndim * I ∧ k ≠ c / ndim then fdv (c / ndim) (c % ndim) k else 0 := by
  intro I
  induction I with
  | zero => intro k c; simp [foldRange]
  | succ I ih =>
    intro k c
    rw [foldRange_succ]
    show foldRange ndim (fun A j => Impl.place ndim fdv A I j) _ k c = _
    rw [place_inner, ih, Nat.mul_succ]
    by_cases hb : ndim * I ≤ c ∧ c < ndim * I + ndim
    · obtain ⟨hd, hm⟩ := block_index hb.1 hb.2
      by_cases hk : k = I
      · have h1 : ¬ (k ≠ I ∧ ndim * I ≤ c ∧ c < ndim * I + ndim) := by tauto
        have h2 : ¬ (c < ndim * I ∧ k ≠ c / ndim) := by omega
        have h3 : ¬ (c < ndim * I + ndim ∧ k ≠ c / ndim) := by rw [hd]; tauto
        rw [if_neg h1, if_neg h2, if_neg h3]
      · have h1 : k ≠ I ∧ ndim * I ≤ c ∧ c < ndim * I + ndim := ⟨hk, hb.1, hb.2⟩
        have h3 : c < ndim * I + ndim ∧ k ≠ c / ndim := ⟨hb.2, by rw [hd]; exact hk⟩
        rw [if_pos h1, if_pos h3, hd, hm]
    · have h1 : ¬ (k ≠ I ∧ ndim * I ≤ c ∧ c < ndim * I + ndim) := by tauto
      rw [if_neg h1]
      by_cases h2 : c < ndim * I ∧ k ≠ c / ndim
      · have h3 : c < ndim * I + ndim ∧ k ≠ c / ndim := ⟨by omega, h2.2⟩
        rw [if_pos h2, if_pos h3]
      · have h3 : ¬ (c < ndim * I + ndim ∧ k ≠ c / ndim) := by
          rintro ⟨a1, a2⟩; apply h2; refine ⟨?_, a2⟩; omega
        rw [if_neg h2, if_neg h3]

theorem selfTerm_closed (N ndim : ℕ) (A : ℕ → ℕ → K) :
    ∀ I k c, foldRange I (fun A i => Impl.selfStep N ndim A i) A k c
      = if k < I ∧ ndim * k ≤ c ∧ c < ndim * k + ndim
        then -(sumRange N fun m => A k (ndim * m + (c - ndim * k))) else A k c := by
  intro I
  induction I with
  | zero => intro k c; simp [foldRange]
  | succ I ih =>
    intro k c
    rw [foldRange_succ]
    have hstep : ∀ B : ℕ → ℕ → K, Impl.selfStep N ndim B I k c
        = if k = I ∧ ndim * I ≤ c ∧ c < ndim * I + ndim
          then -(sumRange N fun m => B I (ndim * m + (c - ndim * I))) else B k c := by
      intro B
      unfold Impl.selfStep Gen.Voro.vmSelfLo Gen.Voro.vmSelfHi Gen.Voro.selfNeg
      simp only [if_true]
    show Impl.selfStep N ndim (foldRange I (fun A i => Impl.selfStep N ndim A i) A) I k c = _
    rw [hstep]
    by_cases hk : k = I
    · subst hk
      by_cases hb : ndim * k ≤ c ∧ c < ndim * k + ndim
      · rw [if_pos ⟨rfl, hb.1, hb.2⟩, if_pos ⟨by omega, hb.1, hb.2⟩]
        congr 2
        funext m
        rw [ih, if_neg (by omega)]
      · have h1 : ¬ (k = k ∧ ndim * k ≤ c ∧ c < ndim * k + ndim) := by tauto
        have h3 : ¬ (k < k + 1 ∧ ndim * k ≤ c ∧ c < ndim * k + ndim) := by tauto
        rw [if_neg h1, if_neg h3, ih, if_neg (by omega)]
    · have h1 : ¬ (k = I ∧ ndim * I ≤ c ∧ c < ndim * I + ndim) := by tauto
      rw [if_neg h1, ih]
      by_cases h2 : k < I ∧ ndim * k ≤ c ∧ c < ndim * k + ndim
      · rw [if_pos h2, if_pos ⟨by omega, h2.2.1, h2.2.2⟩]
      · have h3 : ¬ (k < I + 1 ∧ ndim * k ≤ c ∧ c < ndim * k + ndim) := by
          rintro ⟨a1, a2, a3⟩; exact h2 ⟨by omega, a2, a3⟩
        rw [if_neg h2, if_neg h3]

/-- the raw matrix equals the definition (central differences, self term from translation invariance, relative to the
cell's own volume) for every entry of the `N × ndim·N` array -/
theorem volumeMatrix_refines (N ndim : ℕ) (V1 V2 : ℕ → ℕ → ℕ → K) (δ : K) (orig : ℕ → K) (k c : ℕ)
    (hk : k < N) (hc : c < ndim * N) :
    Impl.volumeMatrix N ndim V1 V2 δ orig k c = Spec.matrixA N ndim V1 V2 δ orig k c := by
  have hn : 0 < ndim := by
    rcases Nat.eq_zero_or_pos ndim with h | h
    · subst h; omega
    · exact h
  unfold Impl.volumeMatrix Impl.normalise Impl.selfTerm Impl.offDiag Spec.matrixA
  simp only
  congr 1
  rw [selfTerm_closed]
  have hfd : ∀ i j k, Gen.Voro.fd (V1 i j k) (V2 i j k) δ = Spec.fdv V1 V2 δ i j k := by
    intro i j k; unfold Gen.Voro.fd Spec.fdv; rw [div_div]
  have hcd : ndim * (c / ndim) ≤ c ∧ c < ndim * (c / ndim) + ndim := by
    have := Nat.div_add_mod c ndim
    have := Nat.mod_lt c hn
    omega
  by_cases hkc : k = c / ndim
  · have hmod : c - ndim * k = c % ndim := by
      have := Nat.div_add_mod c ndim; rw [hkc]; omega
    rw [if_pos ⟨hk, by rw [hkc]; exact hcd.1, by rw [hkc]; exact hcd.2⟩, if_neg (by simpa using hkc), hmod]
    congr 1
    rw [sumRange_eq, sumRange_eq]
    apply Finset.sum_congr rfl
    intro m hm
    have hmN := Finset.mem_range.mp hm
    have hd : c % ndim < ndim := Nat.mod_lt c hn
    obtain ⟨e1, e2⟩ := index_div_mod (n := ndim) (i := m) hd
    rw [offDiag_closed, e1, e2, hfd]
    have hlt : ndim * m + c % ndim < ndim * N := by
      calc ndim * m + c % ndim < ndim * m + ndim := by omega
        _ = ndim * (m + 1) := by ring
        _ ≤ ndim * N := Nat.mul_le_mul_left _ (by omega)
    by_cases hmk : m = k
    · subst hmk; simp
    · have : k ≠ m := fun e => hmk e.symm
      rw [if_pos ⟨hlt, this⟩, if_pos hmk]
  · have h1 : ¬ (k < N ∧ ndim * k ≤ c ∧ c < ndim * k + ndim) := by
      rintro ⟨_, a2, a3⟩; exact hkc (block_index a2 a3).1.symm
    rw [if_neg h1, offDiag_closed, if_pos ⟨hc, hkc⟩, if_pos hkc, hfd]

/-- every row of the definition sums to zero over each displaced coordinate `d` -/
theorem spec_rowsum (N ndim : ℕ) (V1 V2 : ℕ → ℕ → ℕ → K) (δ : K) (orig : ℕ → K) (k d : ℕ) (hk : k < N) (hd : d < ndim) :
    ∑ i ∈ range N, Spec.matrixA N ndim V1 V2 δ orig k (ndim * i + d) = 0 := by
  unfold Spec.matrixA
  simp only [(index_div_mod (n := ndim) hd).1, (index_div_mod (n := ndim) hd).2]
  rw [← Finset.sum_div, sumRange_eq]
  have : ∑ i ∈ range N, (if k ≠ i then Spec.fdv V1 V2 δ i d k
        else -∑ m ∈ range N, if m ≠ k then Spec.fdv V1 V2 δ m d k else 0) = 0 := by
    have e : ∀ i ∈ range N, (if k ≠ i then Spec.fdv V1 V2 δ i d k
          else -∑ m ∈ range N, if m ≠ k then Spec.fdv V1 V2 δ m d k else 0)
        = (if i ≠ k then Spec.fdv V1 V2 δ i d k else 0)
          + (if i = k then -∑ m ∈ range N, if m ≠ k then Spec.fdv V1 V2 δ m d k else 0 else 0) := by
      intro i _
      by_cases h : i = k
      · subst h; simp
      · have : k ≠ i := fun e => h e.symm
        simp [h, this]
    rw [Finset.sum_congr rfl e, Finset.sum_add_distrib, Finset.sum_ite_eq' (range N) k]
    simp [hk]
  rw [this, zero_div]

/-- `Aᵀ·M·A` annihilates every vector that `A` annihilates — whatever `M` is -/
theorem transform_rowsum (N ndim : ℕ) (A M : ℕ → ℕ → K) (d : ℕ)
    (hA : ∀ l, l < N → ∑ i ∈ range N, A l (ndim * i + d) = 0) (r : ℕ) :
    ∑ i ∈ range N, Impl.transform N A M r (ndim * i + d) = 0 := by
  unfold Impl.transform
  simp only [sumRange_eq]
  rw [Finset.sum_comm]
  apply Finset.sum_eq_zero
  intro l hl
  rw [← Finset.mul_sum, hA l (Finset.mem_range.mp hl), mul_zero]

theorem transform_eq_projector (N : ℕ) (A M : ℕ → ℕ → K) (r c : ℕ) :
    Impl.transform N A M r c = Spec.projector N A M r c := by
  unfold Impl.transform Spec.projector
  simp only [sumRange_eq]
  rw [Finset.sum_comm]
  apply Finset.sum_congr rfl
  intro k _
  simp only [Finset.sum_mul]

/-! ### the transformed matrix as a matrix product -/

/-- an index function restricted to `n × m` -/
def mat (n m : ℕ) (f : ℕ → ℕ → K) : Matrix (Fin n) (Fin m) K := Matrix.of fun i j => f i j

theorem transform_mat (N C : ℕ) (A M : ℕ → ℕ → K) :
    mat C C (Impl.transform N A M) = (mat N C A).transpose * mat N N M * mat N C A := by
  ext r c
  simp only [mat, Impl.transform, sumRange_eq, Matrix.of_apply, Matrix.mul_apply, Matrix.transpose_apply,
    Finset.sum_range]

/-- with `M` a right inverse of `A·Aᵀ` (what `np.linalg.inv` is asked for), `Aᵀ·M·A` is a symmetric idempotent -/
theorem transform_projector (N C : ℕ) (A M : ℕ → ℕ → K)
    (hinv : ∀ k l, k < N → l < N →
      ∑ m ∈ range N, (∑ c ∈ range C, A k c * A m c) * M m l = if k = l then 1 else 0) :
    (∀ r s, r < C → s < C →
      ∑ c ∈ range C, Impl.transform N A M r c * Impl.transform N A M c s = Impl.transform N A M r s) ∧
    (∀ r s, r < C → s < C → Impl.transform N A M r s = Impl.transform N A M s r) := by
  set Am := mat N C A with hAm
  set Mm := mat N N M with hMm
  set G := Am * Am.transpose with hG
  have hGM : G * Mm = 1 := by
    ext k l
    have := hinv k l k.2 l.2
    simp only [hG, hAm, hMm, mat, Matrix.mul_apply, Matrix.of_apply, Matrix.transpose_apply, Matrix.one_apply,
      Finset.sum_range] at this ⊢
    rw [this]
    simp [Fin.ext_iff]
  have hMG : Mm * G = 1 := mul_eq_one_comm.mp hGM
  have hGt : G.transpose = G := by rw [hG, Matrix.transpose_mul, Matrix.transpose_transpose]
  have hMt : Mm.transpose = Mm := by
    have h1 : G⁻¹ = Mm := Matrix.inv_eq_right_inv hGM
    rw [← h1, Matrix.transpose_nonsing_inv, hGt]
  have hP := transform_mat N C A M
  rw [← hAm, ← hMm] at hP
  have hPP : mat C C (Impl.transform N A M) * mat C C (Impl.transform N A M) = mat C C (Impl.transform N A M) := by
    rw [hP]
    calc Am.transpose * Mm * Am * (Am.transpose * Mm * Am)
        = Am.transpose * (Mm * (Am * Am.transpose)) * Mm * Am := by simp only [Matrix.mul_assoc]
      _ = Am.transpose * Mm * Am := by rw [← hG, hMG, Matrix.mul_one]
  have hPt : (mat C C (Impl.transform N A M)).transpose = mat C C (Impl.transform N A M) := by
    rw [hP, Matrix.transpose_mul, Matrix.transpose_mul, Matrix.transpose_transpose, hMt, Matrix.mul_assoc]
  constructor
  · intro r s hr hs
    have := congrFun (congrFun hPP ⟨r, hr⟩) ⟨s, hs⟩
    simpa only [mat, Matrix.mul_apply, Matrix.of_apply, Finset.sum_range] using this
  · intro r s hr hs
    have := congrFun (congrFun hPt ⟨s, hs⟩) ⟨r, hr⟩
    simpa only [mat, Matrix.transpose_apply, Matrix.of_apply] using this

end VM
end Pms.Voro
