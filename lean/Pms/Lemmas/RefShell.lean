import Pms.Lemmas.Addition
import Pms.Lemmas.Sym
import Pms.Model.RefShell
import Mathlib.Algebra.BigOperators.Field

/-!
From the addition theorem to (a) q_l² as the mean Legendre polynomial of the bond–bond cosines, (b) rotation and
scaling invariance of q_l, (c) exact rational q_l² of the reference shells.
-/
open Finset
namespace Pms.Boo
open Pms.Sph Pms.PolyN Pms.Sym Pms.RefShell

/-- the model's table of Y_lm values of the bonds `b i j` (k = m + l) -/
noncomputable def Yv (l : ℕ) (b : ℕ → ℕ → ℕ → ℝ) : ℕ → ℕ → ℕ → ℂ :=
  fun i j k => bondY cOps l (b i j 0) (b i j 1) (b i j 2) ((k : ℤ) - (l : ℤ))

theorem dot3 (u v : ℕ → ℝ) : dot 3 u v = u 0 * v 0 + u 1 * v 1 + u 2 * v 2 := by
  simp [dot, sumRange]

/-- cosine of the angle between two vectors -/
noncomputable def cosG (u v : ℕ → ℝ) : ℝ := dot 3 u v / (Real.sqrt (dot 3 u u) * Real.sqrt (dot 3 v v))

/-- addition theorem on index-function vectors -/
theorem addition_vec (l : ℕ) (hOK : additionOK l = true) (u v : ℕ → ℝ) (hu : 0 < dot 3 u u) (hv : 0 < dot 3 v v) :
    ∑ k ∈ range (2 * l + 1), bondY cOps l (u 0) (u 1) (u 2) ((k : ℤ) - l)
        * (starRingEnd ℂ) (bondY cOps l (v 0) (v 1) (v 2) ((k : ℤ) - l))
      = (((2 * (l : ℝ) + 1) / (4 * Real.pi) * ev (cosG u v) (legendre l) : ℝ) : ℂ) := by
  rw [dot3] at hu hv
  have h := addition_bondY_of_check l hOK (u 0) (u 1) (u 2) (v 0) (v 1) (v 2) hu hv
  rw [h]
  unfold cosG
  simp only [dot3]

/-- Σ_k |mean_j Y_jk|² written with a real pair kernel -/
theorem sumSq_kernel (L n : ℕ) (Yk : ℕ → ℕ → ℂ) (G : ℕ → ℕ → ℝ)
    (hG : ∀ j ∈ range n, ∀ j' ∈ range n, ∑ k ∈ range L, Yk j k * (starRingEnd ℂ) (Yk j' k) = (G j j' : ℂ)) :
    ∑ k ∈ range L, Complex.normSq ((∑ j ∈ range n, Yk j k) / (n : ℂ))
      = (∑ j ∈ range n, ∑ j' ∈ range n, G j j') / ((n : ℝ) * (n : ℝ)) := by
  apply Complex.ofReal_injective
  push_cast
  have e : ∀ k ∈ range L, ((Complex.normSq ((∑ j ∈ range n, Yk j k) / (n : ℂ)) : ℝ) : ℂ)
      = (∑ j ∈ range n, ∑ j' ∈ range n, Yk j k * (starRingEnd ℂ) (Yk j' k)) / ((n : ℂ) * (n : ℂ)) := by
    intro k _
    rw [← Complex.mul_conj, map_div₀, map_sum, Complex.conj_natCast, div_mul_div_comm, Finset.sum_mul_sum]
  rw [Finset.sum_congr rfl e, ← Finset.sum_div]
  congr 1
  rw [Finset.sum_comm]
  refine Finset.sum_congr rfl fun j hj => ?_
  rw [Finset.sum_comm]
  exact Finset.sum_congr rfl fun j' hj' => hG j hj j' hj'

/-- **q_l² is the mean Legendre polynomial of the bond–bond cosines** (l passing the decided check) -/
theorem qlSq_cosines (l : ℕ) (hOK : additionOK l = true) (cn : ℕ → ℕ) (u : ℕ → ℕ → ℕ → ℝ) (i : ℕ)
    (hnz : ∀ j < cn i, 0 < dot 3 (u i j) (u i j)) :
    qlSq cOps l (qlmImpl cn (Yv l u) i)
      = (∑ j ∈ range (cn i), ∑ j' ∈ range (cn i), ev (cosG (u i j) (u i j')) (legendre l)) / ((cn i : ℝ) * (cn i : ℝ)) := by
  have hk := sumSq_kernel (2 * l + 1) (cn i) (fun j k => Yv l u i j k)
    (fun j j' => (2 * (l : ℝ) + 1) / (4 * Real.pi) * ev (cosG (u i j) (u i j')) (legendre l))
    (fun j hj j' hj' => addition_vec l hOK (u i j) (u i j') (hnz j (Finset.mem_range.1 hj)) (hnz j' (Finset.mem_range.1 hj')))
  unfold qlSq sumSq
  simp only [qlmImpl, sumRange_eq]
  show ((4 : ℕ) : ℝ) * Real.pi / ((2 * l + 1 : ℕ) : ℝ) * (∑ k ∈ range (2 * l + 1), Complex.normSq _) = _
  rw [hk]
  simp only [← Finset.mul_sum]
  have hpi := Real.pi_pos
  push_cast
  field_simp

/-! ### invariance of the cosines under rotation and per-bond scaling -/

theorem cosG_rot (Rot : ℕ → ℕ → ℝ) (hR : IsOrtho 3 Rot) (u v : ℕ → ℝ) :
    cosG (matVec 3 Rot u) (matVec 3 Rot v) = cosG u v := by
  unfold cosG
  rw [dot_matVec 3 Rot hR, dot_matVec 3 Rot hR, dot_matVec 3 Rot hR]

/-! ### even polynomials, rational evaluation -/

theorem ev_even (x : ℝ) (p : List Rat) (h : isEven p = true) : ev x p = ev (x ^ 2) (evenPart p) := by
  induction p using evenPart.induct with
  | case1 => rfl
  | case2 a => simp [evenPart, ev_cons, ev_nil]
  | case3 a b p ih =>
    simp only [isEven, Bool.and_eq_true, beq_iff_eq] at h
    obtain ⟨hb, hp⟩ := h
    subst hb
    simp only [evenPart, ev_cons, ih hp]
    push_cast
    ring

theorem evalQ_cast (p : List Rat) (q : Rat) : ((evalQ p q : ℚ) : ℝ) = ev (q : ℝ) p := by
  induction p with
  | nil => simp [evalQ, ev_nil]
  | cons a p ih => simp only [evalQ, ev_cons, ← ih]; push_cast; ring

theorem listSumQ_map_cast {β : Type} (xs : List β) (d : β) (f : β → Rat) :
    ((listSumQ (xs.map f) : ℚ) : ℝ) = ∑ j ∈ range xs.length, ((f (xs.getD j d) : ℚ) : ℝ) := by
  induction xs with
  | nil => simp [listSumQ]
  | cons a t ih =>
    rw [List.map_cons, listSumQ, List.length_cons, Finset.sum_range_succ']
    push_cast
    rw [ih]
    simp only [List.getD_cons_succ, List.getD_cons_zero]
    ring

theorem idot_pos_of_all (sh : List V3) (h : sh.all (fun b => decide (0 < idot b b)) = true) (j : ℕ) (hj : j < sh.length) :
    0 < idot (sh.getD j (0, 0, 0)) (sh.getD j (0, 0, 0)) := by
  rw [List.all_eq_true] at h
  have hm : sh.getD j (0, 0, 0) ∈ sh := by
    rw [List.getD_eq_getElem?_getD, List.getElem?_eq_getElem hj]; exact List.getElem_mem hj
  simpa using h _ hm

/-- **exact q_l² of a reference shell**: if the bonds of particle i have the same SQUARED cosines as the integer shell
`sh` (true for every rotated copy with arbitrarily rescaled bonds), then q_l² = `ql2 l sh` exactly (even l) -/
theorem qlSq_ref_shell (l : ℕ) (hOK : additionOK l = true) (sh : List V3) (hsh : shellOK l sh = true)
    (cn : ℕ → ℕ) (u : ℕ → ℕ → ℕ → ℝ) (i : ℕ) (hcn : cn i = sh.length)
    (hnz : ∀ j < cn i, 0 < dot 3 (u i j) (u i j))
    (hcos : ∀ j < cn i, ∀ j' < cn i,
      dot 3 (u i j) (u i j') ^ 2 * (((idot (sh.getD j (0,0,0)) (sh.getD j (0,0,0)) * idot (sh.getD j' (0,0,0)) (sh.getD j' (0,0,0)) : ℤ)) : ℝ)
        = (((idot (sh.getD j (0,0,0)) (sh.getD j' (0,0,0)) * idot (sh.getD j (0,0,0)) (sh.getD j' (0,0,0)) : ℤ)) : ℝ)
            * (dot 3 (u i j) (u i j) * dot 3 (u i j') (u i j'))) :
    qlSq cOps l (qlmImpl cn (Yv l u) i) = ((ql2 l sh : ℚ) : ℝ) := by
  simp only [shellOK, Bool.and_eq_true, Bool.not_eq_true'] at hsh
  obtain ⟨⟨hne, hall⟩, heven⟩ := hsh
  rw [qlSq_cosines l hOK cn u i hnz]
  unfold ql2
  rw [hcn]
  push_cast
  rw [listSumQ_map_cast sh (0, 0, 0)]
  congr 1
  refine Finset.sum_congr rfl fun j hj => ?_
  rw [listSumQ_map_cast sh (0, 0, 0)]
  refine Finset.sum_congr rfl fun j' hj' => ?_
  have hj0 := Finset.mem_range.1 hj
  have hj0' := Finset.mem_range.1 hj'
  rw [evalQ_cast, ev_even _ _ heven]
  congr 1
  -- squared cosine
  have hb := idot_pos_of_all sh hall j hj0
  have hb' := idot_pos_of_all sh hall j' hj0'
  have hu := hnz j (hcn ▸ hj0)
  have hu' := hnz j' (hcn ▸ hj0')
  have hc := hcos j (hcn ▸ hj0) j' (hcn ▸ hj0')
  set b := sh.getD j (0, 0, 0)
  set b' := sh.getD j' (0, 0, 0)
  have hbr : (0 : ℝ) < ((idot b b : ℤ) : ℝ) := by exact_mod_cast hb
  have hbr' : (0 : ℝ) < ((idot b' b' : ℤ) : ℝ) := by exact_mod_cast hb'
  unfold cosG cos2
  rw [div_pow, mul_pow, Real.sq_sqrt hu.le, Real.sq_sqrt hu'.le]
  push_cast at hc ⊢
  rw [div_eq_div_iff (by positivity) (by positivity)]
  linear_combination hc

/-- the hypothesis of `qlSq_ref_shell` holds for every rotated copy of the shell with every bond rescaled separately -/
theorem ref_shell_rotated (sh : List V3) (Rot : ℕ → ℕ → ℝ) (hR : IsOrtho 3 Rot) (s : ℕ → ℝ) (j j' : ℕ) :
    let bv : ℕ → ℕ → ℝ := fun j k =>
      if k = 0 then (((sh.getD j (0,0,0)).1 : ℤ) : ℝ) else if k = 1 then (((sh.getD j (0,0,0)).2.1 : ℤ) : ℝ)
      else (((sh.getD j (0,0,0)).2.2 : ℤ) : ℝ)
    let uu : ℕ → ℕ → ℝ := fun j => matVec 3 Rot (fun k => s j * bv j k)
    dot 3 (uu j) (uu j') ^ 2 * (((idot (sh.getD j (0,0,0)) (sh.getD j (0,0,0)) * idot (sh.getD j' (0,0,0)) (sh.getD j' (0,0,0)) : ℤ)) : ℝ)
      = (((idot (sh.getD j (0,0,0)) (sh.getD j' (0,0,0)) * idot (sh.getD j (0,0,0)) (sh.getD j' (0,0,0)) : ℤ)) : ℝ)
          * (dot 3 (uu j) (uu j) * dot 3 (uu j') (uu j')) := by
  intro bv uu
  simp only [uu, dot_matVec 3 Rot hR, dot3, bv, idot]
  simp only [if_true, if_false, one_ne_zero, OfNat.ofNat_ne_zero, OfNat.ofNat_ne_one]
  push_cast
  ring

end Pms.Boo
