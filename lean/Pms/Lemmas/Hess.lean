import Pms.Model.Hess
import Pms.Lemmas.Basic
import Mathlib.Tactic.SplitIfs
import Mathlib.Tactic.Ring
/-! Helper lemmas for C11: the loop nest of `diagonalize_hessian` as a closed form. -/
open Finset
namespace Pms.Hess

theorem div_eq_iff_block (d i p : ℕ) (hd : 0 < d) : (i * d ≤ p ∧ p < i * d + d) ↔ p / d = i := by
  constructor
  · rintro ⟨h1, h2⟩
    apply Nat.div_eq_of_lt_le
    · exact h1
    · calc p < i * d + d := h2
        _ = (i + 1) * d := by ring
  · intro h
    subst h
    constructor
    · exact Nat.div_mul_le_self p d
    · have := Nat.lt_div_mul_add hd (a := p)
      linarith [this]

variable {M : Type} [AddCommMonoid M]

theorem inner_spec (d : ℕ) (hd : 0 < d) (cond : ℕ → ℕ → Bool) (rhs1 rhs2 : ℕ → ℕ → ℕ → ℕ → M)
    (i : ℕ) (hc : cond i i = false) (H : ℕ → ℕ → M) (J p q : ℕ) :
    foldRange J (fun H j => step d cond rhs1 rhs2 H i j) H p q =
      if p / d = i then
        (if q / d = i then H p q + ∑ j ∈ range J, (if cond i j then rhs1 i j (p - i * d) (q - i * d) else 0)
         else if q / d < J ∧ cond i (q / d) = true then rhs2 i (q / d) (p - i * d) (q - (q / d) * d)
         else H p q)
      else H p q := by
  induction J with
  | zero => simp [foldRange]
  | succ J ih =>
    rw [foldRange_succ]
    show step d cond rhs1 rhs2 (foldRange J (fun H j => step d cond rhs1 rhs2 H i j) H) i J p q = _
    generalize foldRange J (fun H j => step d cond rhs1 rhs2 H i j) H = H' at ih ⊢
    unfold step
    by_cases hcJ : cond i J = true
    · have hJi : J ≠ i := by rintro rfl; simp [hc] at hcJ
      simp only [hcJ, if_true, sliceSet, sliceAdd, Gen.HessTab.index_i_0, Gen.HessTab.index_i_1,
        Gen.HessTab.index_j_0, Gen.HessTab.index_j_1]
      have e1 : (i * d ≤ p ∧ p < i * d + d) ↔ p / d = i := div_eq_iff_block d i p hd
      have e2 : (i * d ≤ q ∧ q < i * d + d) ↔ q / d = i := div_eq_iff_block d i q hd
      have e3 : (J * d ≤ q ∧ q < J * d + d) ↔ q / d = J := div_eq_iff_block d J q hd
      have c1 : (i * d ≤ p ∧ p < i * d + d ∧ J * d ≤ q ∧ q < J * d + d) ↔ (p / d = i ∧ q / d = J) := by
        rw [← e1, ← e3]; tauto
      have c2 : (i * d ≤ p ∧ p < i * d + d ∧ i * d ≤ q ∧ q < i * d + d) ↔ (p / d = i ∧ q / d = i) := by
        rw [← e1, ← e2]; tauto
      simp only [c1, c2, ih, Finset.sum_range_succ, hcJ, if_true]
      by_cases hp : p / d = i
      · by_cases hq : q / d = i
        · have : q / d ≠ J := by omega
          simp [hp, hq, this, add_assoc, hJi, Ne.symm hJi]
        · by_cases hqJ : q / d = J
          · simp [hp, hq, hqJ, hcJ, hJi, Ne.symm hJi]
          · have : (q / d < J + 1) ↔ (q / d < J) := by omega
            simp [hp, hq, hqJ, this]
      · simp [hp]
    · have hcJ' : cond i J = false := by simpa using hcJ
      simp only [hcJ', Bool.false_eq_true, if_false, ih, Finset.sum_range_succ, add_zero]
      by_cases hp : p / d = i
      · by_cases hq : q / d = i
        · simp [hp, hq]
        · by_cases hqJ : q / d = J
          · simp [hp, hq, hqJ, hcJ']
          · have : (q / d < J + 1) ↔ (q / d < J) := by omega
            simp [hp, hq, this]
      · simp [hp]

/-- value of a row block after the complete inner loop started from an all-zero row -/
def rowVal (n d : ℕ) (cond : ℕ → ℕ → Bool) (rhs1 rhs2 : ℕ → ℕ → ℕ → ℕ → M) (p q : ℕ) : M :=
  if q / d = p / d then ∑ j ∈ range n, (if cond (p / d) j then rhs1 (p / d) j (p - p / d * d) (q - p / d * d) else 0)
  else if q / d < n ∧ cond (p / d) (q / d) = true then rhs2 (p / d) (q / d) (p - p / d * d) (q - (q / d) * d)
  else 0

theorem outer_spec (n d : ℕ) (hd : 0 < d) (cond : ℕ → ℕ → Bool) (rhs1 rhs2 : ℕ → ℕ → ℕ → ℕ → M)
    (hc : ∀ i, cond i i = false) (I p q : ℕ) :
    foldRange I (fun H i => foldRange n (fun H j => step d cond rhs1 rhs2 H i j) H) (fun _ _ => (0 : M)) p q =
      if p / d < I then rowVal n d cond rhs1 rhs2 p q else 0 := by
  induction I with
  | zero => simp [foldRange]
  | succ I ih =>
    rw [foldRange_succ]
    show foldRange n (fun H j => step d cond rhs1 rhs2 H I j) _ p q = _
    rw [inner_spec d hd cond rhs1 rhs2 I (hc I), ih]
    by_cases hp : p / d = I
    · have h1 : ¬ (p / d < I) := by omega
      have h2 : p / d < I + 1 := by omega
      simp [hp, rowVal]
    · have : (p / d < I + 1) ↔ (p / d < I) := by omega
      simp only [hp, if_false, this]

/-- the assembled matrix, entry (i·d+a, j·d+b) -/
theorem assemble_spec (n d : ℕ) (cond : ℕ → ℕ → Bool) (rhs1 rhs2 : ℕ → ℕ → ℕ → ℕ → M)
    (hc : ∀ i, cond i i = false) (i j a b : ℕ) (hi : i < n) (hj : j < n) (ha : a < d) (hb : b < d) :
    assemble n d cond rhs1 rhs2 (i * d + a) (j * d + b) =
      if i = j then ∑ k ∈ range n, (if cond i k then rhs1 i k a b else 0)
      else if cond i j then rhs2 i j a b else 0 := by
  have hd : 0 < d := by omega
  unfold assemble
  rw [outer_spec n d hd cond rhs1 rhs2 hc]
  have e1 : (i * d + a) / d = i := (div_eq_iff_block d i _ hd).mp ⟨by omega, by omega⟩
  have e2 : (j * d + b) / d = j := (div_eq_iff_block d j _ hd).mp ⟨by omega, by omega⟩
  simp only [rowVal, e1, e2, hi, hj, if_true, true_and, Nat.add_sub_cancel_left]
  by_cases hij : i = j
  · subst hij; simp
  · have : j ≠ i := fun h => hij h.symm
    simp [hij, this]
end Pms.Hess
