import Pms.Model.Prelude
import Mathlib.Algebra.Order.Floor.Ring
import Mathlib.Algebra.Order.Round
import Mathlib.Data.Rat.Floor
import Mathlib.Tactic.Ring
import Mathlib.Tactic.Linarith
import Mathlib.Tactic.NormNum
import Mathlib.Tactic.Push

/-! The contract of `np.rint` used by the theorems, and the proof that the driver's
`ratRint` satisfies it. -/
namespace Pms

variable {K : Type} [Field K] [LinearOrder K] [IsStrictOrderedRing K]

/-- contract of `np.rint` (round half to even), as far as the theorems need it -/
structure IsRintHE (rint : K → ℤ) : Prop where
  /-- a nearest integer -/
  near : ∀ x, |x - (rint x : K)| ≤ 1/2
  /-- ties at ±1/2 go to the even integer 0 -/
  zero : ∀ x, |x| ≤ 1/2 → rint x = 0
  /-- odd symmetry (half-even is symmetric) -/
  odd : ∀ x, rint (-x) = - rint x

/-- `x` is not exactly half-way between two integers -/
def NoTie (x : K) : Prop := ∀ n : ℤ, |x - (n : K)| ≠ 1/2

/-- away from ties the nearest integer is unique, so `rint` commutes with integer shifts -/
theorem IsRintHE.add_int {rint : K → ℤ} (h : IsRintHE rint) (x : K) (hx : NoTie x) (m : ℤ) :
    rint (x + (m : K)) = rint x + m := by
  have h1 := h.near x
  have h1' : |x - (rint x : K)| < 1/2 := lt_of_le_of_ne h1 (hx _)
  have h2 := h.near (x + (m : K))
  -- two integers at distance < 1
  have : |((rint (x + (m:K)) : K)) - ((rint x + m : ℤ) : K)| < 1 := by
    have e : ((rint (x + (m:K)) : K)) - ((rint x + m : ℤ) : K)
        = (x - (rint x : K)) - ((x + (m:K)) - (rint (x + (m:K)) : K)) := by push_cast; ring
    rw [e]
    calc |(x - (rint x : K)) - ((x + (m:K)) - (rint (x + (m:K)) : K))|
        ≤ |x - (rint x : K)| + |(x + (m:K)) - (rint (x + (m:K)) : K)| := abs_sub _ _
      _ < 1/2 + 1/2 := add_lt_add_of_lt_of_le h1' h2
      _ = 1 := by norm_num
  have h3 : |(rint (x + (m:K)) - (rint x + m) : ℤ)| < 1 := by
    have : ((|(rint (x + (m:K)) - (rint x + m) : ℤ)| : ℤ) : K) < ((1 : ℤ) : K) := by
      push_cast; push_cast at this; exact this
    exact_mod_cast this
  have := Int.abs_lt_one_iff.mp h3
  omega

theorem ratRint_isRintHE : IsRintHE (K := ℚ) ratRint := by
  have hfl : ∀ x : ℚ, ((x.floor : ℤ) : ℚ) ≤ x ∧ x < (x.floor : ℚ) + 1 := by
    intro x
    have : x.floor = ⌊x⌋ := rfl
    rw [this]; exact ⟨Int.floor_le x, Int.lt_floor_add_one x⟩
  refine ⟨?_, ?_, ?_⟩
  · intro x
    obtain ⟨h1, h2⟩ := hfl x
    unfold ratRint
    simp only
    split
    · rename_i h; rw [abs_le]; constructor <;> linarith
    · split
      · rename_i h h'; push_cast; rw [abs_le]; constructor <;> linarith
      · rename_i h h'
        have e : x - (x.floor : ℚ) = 1/2 := le_antisymm (not_lt.mp h') (not_lt.mp h)
        split
        · rw [e]; rw [abs_le]; constructor <;> norm_num
        · push_cast; rw [abs_le]; constructor <;> linarith
  · intro x hx
    obtain ⟨h1, h2⟩ := hfl x
    rw [abs_le] at hx
    obtain ⟨hx1, hx2⟩ := hx
    have hf : x.floor = -1 ∨ x.floor = 0 := by
      have a : ((x.floor : ℤ) : ℚ) < 1 := by linarith
      have b : (-2 : ℚ) < ((x.floor : ℤ) : ℚ) := by linarith
      have a' : x.floor < 1 := by exact_mod_cast a
      have b' : -2 < x.floor := by exact_mod_cast b
      omega
    unfold ratRint
    simp only
    rcases hf with hf | hf <;> rw [hf]
    · split
      · rename_i h; push_cast at h; linarith
      · split
        · norm_num
        · norm_num
    · split
      · rfl
      · split
        · rename_i h h'; push_cast at h'; linarith
        · norm_num
  · intro x
    -- odd symmetry: case analysis on the fractional part
    obtain ⟨h1, h2⟩ := hfl x
    obtain ⟨g1, g2⟩ := hfl (-x)
    by_cases hint : ((x.floor : ℤ) : ℚ) = x
    · -- x integer
      have hneg : (-x).floor = - x.floor := by
        have a : ((-x).floor : ℚ) ≤ -(x.floor : ℚ) := by linarith
        have b : -(x.floor : ℚ) < ((-x).floor : ℚ) + 1 := by linarith
        have a' : (-x).floor ≤ - x.floor := by exact_mod_cast a
        have b' : - x.floor < (-x).floor + 1 := by exact_mod_cast b
        omega
      unfold ratRint
      simp only [hneg]
      have e1 : x - (x.floor : ℚ) = 0 := by linarith
      have e2 : -x - ((-x.floor : ℤ) : ℚ) = 0 := by push_cast; linarith
      rw [e1, e2]; norm_num
    · have hlt : ((x.floor : ℤ) : ℚ) < x := lt_of_le_of_ne h1 hint
      have hneg : (-x).floor = - x.floor - 1 := by
        have a : ((-x).floor : ℚ) < -(x.floor : ℚ) := by linarith
        have b : -(x.floor : ℚ) - 1 < ((-x).floor : ℚ) + 1 := by linarith
        have a' : (-x).floor < - x.floor := by exact_mod_cast a
        have b' : - x.floor - 1 < (-x).floor + 1 := by exact_mod_cast b
        omega
      unfold ratRint
      simp only [hneg]
      have e2 : -x - ((-x.floor - 1 : ℤ) : ℚ) = 1 - (x - (x.floor : ℚ)) := by push_cast; ring
      rw [e2]
      generalize x - (x.floor : ℚ) = r at *
      generalize x.floor = f at *
      rcases lt_trichotomy r (1/2) with hr | hr | hr
      · have a : ¬ (1 - r < 1/2) := by linarith
        have b : (1/2 : ℚ) < 1 - r := by linarith
        rw [if_neg a, if_pos b, if_pos hr]; ring
      · subst hr
        norm_num
        rcases Int.emod_two_eq_zero_or_one f with hf | hf
        · have : (-f - 1) % 2 = 1 := by omega
          simp [hf, this]
        · have : (-f - 1) % 2 = 0 := by omega
          simp [hf, this]; omega
      · have a : ¬ (r < 1/2) := by linarith
        have b : (1 - r < 1/2) := by linarith
        rw [if_pos b, if_neg a, if_pos hr]; ring

end Pms
