import Pms.Model.Cond
import Pms.Gen.Cond
import Pms.Lemmas.Gr
import Pms.Lemmas.Sq

/-! Helper lemmas for C13: the regenerated dispatch table, pair weights, the normalisation statements, density modes. -/
set_option linter.unusedSectionVars false
set_option linter.unusedVariables false
open Finset
namespace Pms.Cond
open Pms
open Pms.Sq (Cx reMulConj phase)
open Pms.Gen.Cond

variable {K : Type} [Field K] [LinearOrder K] [IsStrictOrderedRing K]

/-! ### the regenerated dispatch -/

/-- what the branch reached by a condition of a given kind has to do -/
def expectedPrep : Spec.Kind → Prep
  | .bool => { castInt := true, natomSum := true, conj := false, norm := false }
  | .real => { castInt := false, natomSum := false, conj := false, norm := true }
  | .complex => { castInt := false, natomSum := false, conj := true, norm := false }
  | .vector => { castInt := false, natomSum := false, conj := true, norm := false }
  | .tensor => { castInt := false, natomSum := false, conj := false, norm := false }

/-- the `SIJ` expression the loop reached by a condition of a given kind has to evaluate -/
def expectedWeight : Spec.Kind → Weight
  | .bool | .real | .complex => { op := .mul, left := { src := .cond, idx := .j }, right := { src := .conj, idx := .i } }
  | .vector => { op := .dot, left := { src := .cond, idx := .j }, right := { src := .conj, idx := .i } }
  | .tensor => { op := .trace, left := { src := .cond, idx := .i }, right := { src := .conj, idx := .j } }

/-- a branch does what a condition of the given kind and dtype needs: it counts the selected particles exactly for a
mask, sets `norminator` exactly for a real scalar, and conjugates when the values can be complex (for real-valued
conditions `np.conj` and `.copy()` are the same thing, either is accepted) -/
def prepOK (kind : Spec.Kind) (dt : DType) (p : Prep) : Bool :=
  p.natomSum == (expectedPrep kind).natomSum && p.norm == (expectedPrep kind).norm &&
    (kind.isRealValued dt || p.conj == (expectedPrep kind).conj)

/-- the whole quantifier domain (kind × dtype of that kind × prescribed conditiontype), evaluated by the kernel on
the REGENERATED if-chains: every combination reaches a branch and the loop its kind needs -/
theorem dispatch_table : ∀ kind ∈ Spec.Kind.all, ∀ dt ∈ kind.dtypes, ∀ ct ∈ kind.ctypes,
    prepOK kind dt (grSrc.prep.eval dt kind.rank ct) = true ∧ selectLoop grSrc.loops ct = some (expectedWeight kind) := by
  decide +kernel

theorem mem_all (kind : Spec.Kind) : kind ∈ Spec.Kind.all := by cases kind <;> decide

/-! ### pair weights -/

theorem cxmul_re_comm (a b : Cx K) : (Cx.mul a b).re = (Cx.mul b a).re := by
  simp only [Cx.mul]; ring

theorem weight_symm (kind : Spec.Kind) (d m : ℕ) (A : ℕ → ℕ → Cx K) (i j : ℕ) :
    Spec.weight kind d m A i j = Spec.weight kind d m A j i := by
  cases kind <;> simp only [Spec.weight]
  · exact Sq.reMulConj_comm _ _
  · exact Sq.reMulConj_comm _ _
  · exact Sq.reMulConj_comm _ _
  · simp only [sumRange_eq]
    exact Finset.sum_congr rfl fun c _ => Sq.reMulConj_comm _ _
  · simp only [sumRange_eq]
    rw [Finset.sum_comm]
    exact Finset.sum_congr rfl fun a _ => Finset.sum_congr rfl fun b _ => cxmul_re_comm _ _

/-- the values are real (zero imaginary parts) for the first N particles -/
def IsRealUpTo (N : ℕ) (A : ℕ → ℕ → Cx K) : Prop := ∀ i < N, ∀ c, (A i c).im = 0

/-- the regenerated `SIJ` of each kind is the pair weight of the statement (real-valued kinds: zero imaginary parts) -/
theorem weight_eval (kind : Spec.Kind) (dt : DType) (d m N : ℕ) (A : ℕ → ℕ → Cx K)
    (hreal : kind.isRealValued dt = true → IsRealUpTo N A) (hdt : dt ∈ kind.dtypes) (i j : ℕ) (hi : i < N) (hj : j < N) :
    (expectedWeight kind).eval (expectedPrep kind) d m A i j = Spec.weight kind d m A i j := by
  cases kind
  · -- bool
    have h := hreal rfl
    simp only [expectedWeight, expectedPrep, Weight.eval, operand, Spec.weight, Sq.reMulConj_eq, Cx.mul]
    rw [h i hi 0, h j hj 0]; simp; ring
  · have h := hreal rfl
    simp only [expectedWeight, expectedPrep, Weight.eval, operand, Spec.weight, Sq.reMulConj_eq, Cx.mul]
    rw [h i hi 0, h j hj 0]; simp; ring
  · simp only [expectedWeight, expectedPrep, Weight.eval, operand, Spec.weight, Sq.reMulConj_eq, Cx.mul, Cx.conj, if_true]
    ring
  · simp only [expectedWeight, expectedPrep, Weight.eval, operand, Spec.weight, Sq.reMulConj_eq, Cx.mul, Cx.conj, if_true,
      sumRange_eq]
    refine Finset.sum_congr rfl fun c _ => ?_
    ring
  · simp only [expectedWeight, expectedPrep, Weight.eval, operand, Spec.weight]
    rfl

theorem cx_eq {a b : Cx K} (h1 : a.re = b.re) (h2 : a.im = b.im) : a = b := by
  cases a; cases b; simp_all

/-- on real values it does not matter whether a branch conjugates -/
theorem operand_real (p p' : Prep) (N : ℕ) (A : ℕ → ℕ → Cx K) (hA : IsRealUpTo N A) (o : Operand) (i j c : ℕ)
    (hi : i < N) (hj : j < N) : operand p A o i j c = operand p' A o i j c := by
  have hc : ∀ n < N, Cx.conj (A n c) = A n c := fun n hn => cx_eq rfl (by simp [Cx.conj, hA n hn c])
  rcases o with ⟨src, idx⟩
  cases src <;> cases idx <;> simp only [operand] <;> split <;> split <;> simp_all

theorem weight_eval_congr (w : Weight) (p p' : Prep) (h : p.conj = p'.conj) (d m : ℕ) (A : ℕ → ℕ → Cx K) (i j : ℕ) :
    w.eval p d m A i j = w.eval p' d m A i j := by
  unfold Weight.eval operand; rw [h]

/-- the regenerated `SIJ` with the Prep of ANY branch that passes `prepOK` is the pair weight of the statement -/
theorem weight_eval_p (kind : Spec.Kind) (dt : DType) (p : Prep) (hp : prepOK kind dt p = true) (d m N : ℕ)
    (A : ℕ → ℕ → Cx K) (hreal : kind.isRealValued dt = true → IsRealUpTo N A) (hdt : dt ∈ kind.dtypes) (i j : ℕ)
    (hi : i < N) (hj : j < N) :
    (expectedWeight kind).eval p d m A i j = Spec.weight kind d m A i j := by
  rw [← weight_eval kind dt d m N A hreal hdt i j hi hj]
  by_cases hr : kind.isRealValued dt = true
  · have hA := hreal hr
    unfold Weight.eval
    simp only [fun (o : Operand) (c : ℕ) => operand_real p (expectedPrep kind) N A hA o i j c hi hj]
  · apply weight_eval_congr
    simp only [prepOK, Bool.and_eq_true, Bool.or_eq_true, beq_iff_eq] at hp
    rcases hp.2 with h | h
    · exact absurd h hr
    · exact h

theorem prepOK_natomSum {kind : Spec.Kind} {dt : DType} {p : Prep} (hp : prepOK kind dt p = true) :
    p.natomSum = (expectedPrep kind).natomSum := by
  simp only [prepOK, Bool.and_eq_true, beq_iff_eq] at hp; exact hp.1.1

theorem prepOK_norm {kind : Spec.Kind} {dt : DType} {p : Prep} (hp : prepOK kind dt p = true) :
    p.norm = (expectedPrep kind).norm := by
  simp only [prepOK, Bool.and_eq_true, beq_iff_eq] at hp; exact hp.1.2

/-! ### histograms -/

theorem loopHist_congr (tr : Gr.Traj K) (bin : ℕ → ℕ → ℕ → ℕ → Bool) (w v : ℕ → ℕ → ℕ → K) (k : ℕ)
    (h : ∀ f < tr.T, ∀ i < tr.N, ∀ j < tr.N, w f i j = v f i j) :
    Gr.loopHist tr bin w k = Gr.loopHist tr bin v k := by
  rw [Gr.loopHist_eq, Gr.loopHist_eq]
  refine Finset.sum_congr rfl fun f hf => Finset.sum_congr rfl fun i hi => Finset.sum_congr rfl fun j hj => ?_
  rw [h f (mem_range.mp hf) i (mem_range.mp hi) j (mem_range.mp hj)]

/-- ordered-pair histogram of a symmetric weight = 2 × the code's i<j loop -/
theorem pairHist_symm (tr : Gr.Traj K) (bin : ℕ → ℕ → ℕ → ℕ → Bool) (w : ℕ → ℕ → K) (hw : ∀ i j, w i j = w j i) (k : ℕ)
    (hB : ∀ f i j, bin f i j k = bin f j i k) :
    Gr.pairHist tr bin (fun _ i j => w i j) k = 2 * Gr.loopHist tr bin (fun _ i j => w i j) k := by
  apply Gr.pairHist_loopHist tr bin _ _ 2 k hB
  intro f _ i _ j _
  rw [hw j i]; ring

theorem rawGr_eq (tr : Gr.Traj K) (bin : ℕ → ℕ → ℕ → ℕ → Bool) (k : ℕ) (hB : ∀ f i j, bin f i j k = bin f j i k) :
    Gr.Spec.pairCountAll tr bin k = 2 * Impl.rawGr tr bin k := by
  unfold Gr.Spec.pairCountAll Impl.rawGr
  exact pairHist_symm tr bin (fun _ _ => ((1 : ℕ) : K)) (fun _ _ => rfl) k hB

/-! ### the normalisation statements -/

/-- hypotheses under which the normalisation is meaningful (a single configuration: T = 1) -/
structure WFc (rint : K → ℤ) (tr : Gr.Traj K) : Prop where
  rint_he : IsRintHE rint
  dim : tr.d = 2 ∨ tr.d = 3
  T_one : tr.T = 1
  N_pos : 0 < tr.N
  V_ne : Gr.Spec.V tr ≠ 0
  pi_ne : tr.pi ≠ 0
  delta_ne : tr.rdelta ≠ 0

/-- the regenerated statements, executed in source order on row k: `r` is the bin centre; `gr` and `gA` are
V/n²·(2·raw)/shell with n = N resp. `Natom`; the statements under `if norminator` give (gA − ⟨A⟩²)/(⟨A²⟩ − ⟨A⟩²) -/
theorem final_cols (tr : Gr.Traj K) (hd : tr.d = 2 ∨ tr.d = 3) (hV : Gr.Spec.V tr ≠ 0) (hN : (tr.N : K) ≠ 0)
    (hpi : tr.pi ≠ 0) (hδ : tr.rdelta ≠ 0) (p : Prep) (A : ℕ → ℕ → Cx K) (hn : Impl.natom p tr.N A ≠ 0) (gr gA : K) (k : ℕ) :
    Impl.final grSrc tr p A gr gA k .colR = Gr.Spec.r tr k ∧
    Impl.final grSrc tr p A gr gA k .colGr = Gr.Spec.V tr / ((tr.N : K) * (tr.N : K)) * (2 * gr) / Gr.Spec.shell tr k ∧
    Impl.final grSrc tr p A gr gA k .colGA
      = Gr.Spec.V tr / (Impl.natom p tr.N A * Impl.natom p tr.N A) * (2 * gA) / Gr.Spec.shell tr k ∧
    (p.norm = true → Impl.final grSrc tr p A gr gA k .colGAnorm
      = (Impl.final grSrc tr p A gr gA k .colGA - Spec.mean tr.N A * Spec.mean tr.N A)
          / (Spec.meanSq tr.N A - Spec.mean tr.N A * Spec.mean tr.N A)) := by
  have hs3 := Gr.shellfac3 (K := K) k; have hs2 := Gr.shellfac2 (K := K) k
  have hV' : Gr.prodRange tr.d tr.box ≠ 0 := hV
  rcases hd with hd | hd <;> cases hp : p.norm <;>
  · simp only [Impl.final, hp, grSrc, runStmts, CExpr.eval, Impl.state0, Impl.nf, Gr.lookupNat, hd, Gr.Spec.r, Gr.Spec.shell,
      Gr.Spec.V, Gr.npow_eq]
    simp only [hd] at hV'
    refine ⟨?_, ?_, ?_, ?_⟩
    · simp; ring
    · simp [CExpr.eval]; field_simp; try ring
    · simp [CExpr.eval]; field_simp; try ring
    · simp [CExpr.eval]

/-! ### conditions of a given kind -/

/-- number of particles entering the normalisation: the selected ones for a boolean selection, all N otherwise -/
def Spec.nOf (kind : Spec.Kind) (N : ℕ) (x : Input K) : ℕ := if kind = .bool then Spec.count N x.sel else N

/-- `x` is a condition of the given kind on N particles: a dtype of that kind, the shape of that kind, real values
where the kind is real-valued, and for a boolean selection the 0/1 values of a mask selecting at least one particle -/
structure Valid (kind : Spec.Kind) (N : ℕ) (x : Input K) : Prop where
  dtype : x.dtype ∈ kind.dtypes
  rank : x.rank = kind.rank
  real : kind.isRealValued x.dtype = true → IsRealUpTo N x.A
  mask : kind = .bool → (∀ i c, x.A i c = indCx (x.sel i)) ∧ 0 < Spec.count N x.sel

theorem count_cast (N : ℕ) (sel : ℕ → Bool) :
    ((Spec.count N sel : ℕ) : K) = ∑ i ∈ range N, (Gr.ind (sel i) : K) := by
  unfold Spec.count Gr.ind
  rw [sumRange_eq, Nat.cast_sum]
  refine Finset.sum_congr rfl fun i _ => ?_
  split <;> simp

theorem natom_eq (kind : Spec.Kind) (N : ℕ) (x : Input K) (hx : Valid kind N x) (p : Prep)
    (hp : prepOK kind x.dtype p = true) :
    Impl.natom p N x.A = ((Spec.nOf kind N x : ℕ) : K) := by
  unfold Impl.natom
  rw [prepOK_natomSum hp]
  cases kind <;> simp only [expectedPrep, Spec.nOf] <;> try simp
  rw [count_cast, sumRange_eq]
  refine Finset.sum_congr rfl fun i _ => ?_
  rw [(hx.mask rfl).1 i 0]; rfl

theorem nOf_pos (kind : Spec.Kind) (N : ℕ) (hN : 0 < N) (x : Input K) (hx : Valid kind N x) : 0 < Spec.nOf kind N x := by
  unfold Spec.nOf
  split
  · rename_i h; exact (hx.mask h).2
  · exact hN

/-- the raw `gA` column of the regenerated loop is the i<j loop over the statement's pair weight -/
theorem rawGA_eq (tr : Gr.Traj K) (bin : ℕ → ℕ → ℕ → ℕ → Bool) (kind : Spec.Kind) (x : Input K) (hx : Valid kind tr.N x)
    (p : Prep) (hp : prepOK kind x.dtype p = true) (k : ℕ) :
    Impl.rawGA tr bin (expectedWeight kind) p x.m x.A k
      = Gr.loopHist tr bin (fun _ i j => Spec.weight kind tr.d x.m x.A i j) k := by
  unfold Impl.rawGA
  apply loopHist_congr
  intro f _ i hi j hj
  exact weight_eval_p kind x.dtype p hp tr.d x.m tr.N x.A hx.real hx.dtype i j hi hj

/-- the statement's g_A through the code's loop: V/n² · 2·(i<j loop) / shell, for a single configuration -/
theorem gA_loop (tr : Gr.Traj K) (hT : tr.T = 1) (bin : ℕ → ℕ → ℕ → ℕ → Bool) (kind : Spec.Kind) (n m : ℕ)
    (A : ℕ → ℕ → Cx K) (k : ℕ) (hB : ∀ f i j, bin f i j k = bin f j i k) :
    Spec.gA tr bin kind n m A k
      = Gr.Spec.V tr / ((n : K) * (n : K)) * (2 * Gr.loopHist tr bin (fun _ i j => Spec.weight kind tr.d m A i j) k)
          / Gr.Spec.shell tr k := by
  unfold Spec.gA
  rw [pairHist_symm tr bin (fun i j => Spec.weight kind tr.d m A i j) (fun i j => weight_symm kind tr.d m A i j) k hB, hT]
  simp

theorem gTotal_loop (tr : Gr.Traj K) (hT : tr.T = 1) (bin : ℕ → ℕ → ℕ → ℕ → Bool) (k : ℕ)
    (hB : ∀ f i j, bin f i j k = bin f j i k) :
    Gr.Spec.gTotalOf tr bin k
      = Gr.Spec.V tr / ((tr.N : K) * (tr.N : K)) * (2 * Impl.rawGr tr bin k) / Gr.Spec.shell tr k := by
  unfold Gr.Spec.gTotalOf
  rw [rawGr_eq tr bin k hB, hT]
  simp

/-! ### reductions: partial, total, components -/

theorem count_eq_Na (tr : Gr.Traj K) (a : ℕ) (sel : ℕ → Bool) (hsel : ∀ i, sel i = decide ((tr.frame 0).typ i = a)) :
    Spec.count tr.N sel = Gr.Spec.Na tr a := by
  unfold Spec.count Gr.Spec.Na Gr.countType
  rw [sumRange_eq, sumRange_eq]
  refine Finset.sum_congr rfl fun i _ => ?_
  rw [hsel i]; simp

theorem gA_bool_eq_partial (tr : Gr.Traj K) (hT : tr.T = 1) (bin : ℕ → ℕ → ℕ → ℕ → Bool) (a : ℕ) (x : Input K)
    (hx : Valid .bool tr.N x) (hsel : ∀ i, x.sel i = decide ((tr.frame 0).typ i = a)) (k : ℕ) :
    Spec.gA tr bin .bool (Spec.nOf .bool tr.N x) x.m x.A k = Gr.Spec.gOf tr bin a a k := by
  have hn : Spec.nOf .bool tr.N x = Gr.Spec.Na tr a := by
    simp only [Spec.nOf, if_true]; exact count_eq_Na tr a x.sel hsel
  unfold Spec.gA Gr.Spec.gOf Gr.Spec.pairCount
  rw [hn]
  congr 3
  apply Gr.pairHist_congr
  intro f hf i _ j _
  have hf0 : f = 0 := by omega
  subst hf0
  simp only [Spec.weight, Sq.reMulConj_eq, (hx.mask rfl).1, indCx, hsel, Gr.ind]
  by_cases h1 : (tr.frame 0).typ i = a <;> by_cases h2 : (tr.frame 0).typ j = a <;> simp [h1, h2]

theorem gA_ones_eq_total (tr : Gr.Traj K) (bin : ℕ → ℕ → ℕ → ℕ → Bool) (x : Input K) (hone : ∀ i c, x.A i c = ⟨1, 0⟩) (k : ℕ) :
    Spec.gA tr bin .real (Spec.nOf .real tr.N x) x.m x.A k = Gr.Spec.gTotalOf tr bin k := by
  have hn : Spec.nOf .real tr.N x = tr.N := by simp [Spec.nOf]
  unfold Spec.gA Gr.Spec.gTotalOf Gr.Spec.pairCountAll
  rw [hn]
  congr 3
  apply Gr.pairHist_congr
  intro f _ i _ j _
  simp [Spec.weight, Sq.reMulConj_eq, hone]

/-- the scalar kind a component of a vector field of dtype `dt` has -/
def scalarKind (dt : DType) : Spec.Kind := if dt.isComplex then .complex else .real

/-- component c of a vector condition, passed as a scalar condition of the same dtype -/
def component (x : Input K) (c : ℕ) : Input K :=
  { dtype := x.dtype, rank := 1, m := 1, sel := x.sel, A := fun i _ => x.A i c }

theorem scalarKind_none (dt : DType) : (none : Option String) ∈ (scalarKind dt).ctypes := by
  unfold scalarKind; split <;> decide

theorem nOf_scalarKind (dt : DType) (N : ℕ) (x : Input K) : Spec.nOf (scalarKind dt) N x = N := by
  unfold Spec.nOf scalarKind; split <;> simp

theorem component_valid (N : ℕ) (x : Input K) (hx : Valid .vector N x) (c : ℕ) :
    Valid (scalarKind x.dtype) N (component x c) := by
  have h := hx.dtype
  have hr := hx.real
  refine ⟨?_, ?_, ?_, ?_⟩
  · show x.dtype ∈ (scalarKind x.dtype).dtypes
    revert h; cases x.dtype <;> simp [scalarKind, DType.isComplex, Spec.Kind.dtypes]
  · show 1 = (scalarKind x.dtype).rank
    unfold scalarKind; split <;> rfl
  · intro hreal i hi c'
    show (x.A i c).im = 0
    apply hr _ i hi c
    revert hreal h
    show _ ∈ _ → (scalarKind x.dtype).isRealValued x.dtype = true → _
    cases x.dtype <;> simp [scalarKind, DType.isComplex, Spec.Kind.isRealValued, Spec.Kind.dtypes]
  · intro hb
    exfalso; revert hb
    unfold scalarKind; split <;> simp

theorem weight_scalarKind (dt : DType) (d : ℕ) (A : ℕ → ℕ → Cx K) (i j : ℕ) :
    Spec.weight (scalarKind dt) d 1 A i j = reMulConj (A i 0) (A j 0) := by
  unfold scalarKind; split <;> rfl

theorem gA_vector_sum (tr : Gr.Traj K) (bin : ℕ → ℕ → ℕ → ℕ → Bool) (x : Input K) (k : ℕ) :
    Spec.gA tr bin .vector (Spec.nOf .vector tr.N x) x.m x.A k
      = ∑ c ∈ range x.m, Spec.gA tr bin (scalarKind x.dtype) tr.N 1 (component x c).A k := by
  have hn : Spec.nOf .vector tr.N x = tr.N := by simp [Spec.nOf]
  unfold Spec.gA
  rw [hn]
  have hw : (fun (_ : ℕ) i j => Spec.weight .vector tr.d x.m x.A i j)
      = fun f i j => ∑ c ∈ range x.m, (fun c (_ : ℕ) i j => Spec.weight (scalarKind x.dtype) tr.d 1 (component x c).A i j) c f i j := by
    funext f i j
    simp only [weight_scalarKind, component]
    simp only [Spec.weight, sumRange_eq]
  rw [hw, Gr.pairHist_sum (range x.m) tr bin _ k]
  simp only [Finset.mul_sum, Finset.sum_div]

end Pms.Cond
