import Pms.Model.Boo2d
import Pms.Lemmas.Basic
import Pms.Lemmas.Pbc
import Mathlib.Analysis.SpecialFunctions.Complex.Arg
import Mathlib.Analysis.SpecialFunctions.Trigonometric.Basic
import Mathlib.Analysis.SpecialFunctions.Sqrt
import Mathlib.Analysis.Complex.Norm
import Mathlib.Algebra.BigOperators.Field
import Mathlib.Tactic.Ring
import Mathlib.Algebra.Order.Floor.Ring
import Mathlib.Tactic.Linarith
import Mathlib.Tactic.FieldSimp
import Mathlib.Tactic.Positivity

/-! Helper definitions and lemmas for C10 (the ℝ/ℂ instance of `Pms.Boo2d`). -/
open Finset
namespace Pms.Boo2d
open Pms Complex

/-- `x + i y` -/
noncomputable def mkC (x y : ℝ) : ℂ := (x : ℂ) + (y : ℂ) * I

/-- CONTRACT model of `np.exp(1j * l * np.arctan2(y, x))`: Mathlib has no `atan2`; `np.arctan2(y, x)`
is modelled by `Complex.arg (x + i y)` (both are the angle in (−π, π] of the point (x, y), both
give 0 at the origin). -/
noncomputable def npE (l : ℕ) (x y : ℝ) : ℂ :=
  Complex.exp (I * (l : ℂ) * ((Complex.arg (mkC x y) : ℝ) : ℂ))

/-- real number as complex (`weights * …` broadcasts a float array against a complex one) -/
noncomputable def ofRC (x : ℝ) : ℂ := (x : ℂ)

theorem cpow_eq {M : Type} [Monoid M] (z : M) (n : ℕ) : cpow z n = z ^ n := by
  induction n with
  | zero => simp [cpow]
  | succ n ih => simp [cpow, ih, pow_succ]

theorem norm_mkC (x y : ℝ) : ‖mkC x y‖ = Real.sqrt (x * x + y * y) := by
  unfold mkC
  rw [Complex.norm_add_mul_I]
  congr 1; ring

theorem mkC_eq_zero {x y : ℝ} : mkC x y = 0 ↔ x = 0 ∧ y = 0 := by
  unfold mkC
  constructor
  · intro h
    have h1 := congrArg Complex.re h
    have h2 := congrArg Complex.im h
    simp at h1 h2
    exact ⟨h1, h2⟩
  · rintro ⟨rfl, rfl⟩; simp

/-- the model's trigonometry-free bond factor is `(z/|z|)^l` -/
theorem unitPow_eq (l : ℕ) (x y : ℝ) :
    unitPow Real.sqrt mkC l x y = (mkC x y / ((‖mkC x y‖ : ℝ) : ℂ)) ^ l := by
  unfold unitPow
  rw [cpow_eq, norm_mkC]
  congr 1
  unfold mkC
  push_cast
  ring

theorem exp_arg_eq (z : ℂ) (hz : z ≠ 0) :
    Complex.exp (((Complex.arg z : ℝ) : ℂ) * I) = z / ((‖z‖ : ℝ) : ℂ) := by
  have h := Complex.norm_mul_exp_arg_mul_I z
  have hn : ((‖z‖ : ℝ) : ℂ) ≠ 0 := by
    simpa using hz
  rw [eq_div_iff hn, mul_comm]
  exact h

theorem npE_eq_pow (l : ℕ) (x y : ℝ) :
    npE l x y = Complex.exp (((Complex.arg (mkC x y) : ℝ) : ℂ) * I) ^ l := by
  unfold npE
  rw [← Complex.exp_nat_mul]
  congr 1; ring

theorem norm_npE (l : ℕ) (x y : ℝ) : ‖npE l x y‖ = 1 := by
  rw [npE_eq_pow, norm_pow, Complex.norm_exp_ofReal_mul_I, one_pow]

theorem npE_zero (l : ℕ) : npE l 0 0 = 1 := by
  unfold npE mkC; simp


/-- polar coordinates: a bond of length ρ > 0 at angle φ contributes `exp(i l φ)` -/
theorem npE_polar (l : ℕ) (ρ φ : ℝ) (hρ : 0 < ρ) :
    npE l (ρ * Real.cos φ) (ρ * Real.sin φ) = Complex.exp (I * (l : ℂ) * (φ : ℂ)) := by
  have hz : mkC (ρ * Real.cos φ) (ρ * Real.sin φ) = (ρ : ℂ) * Complex.exp ((φ : ℂ) * I) := by
    rw [Complex.exp_mul_I]; unfold mkC; push_cast; ring
  have hn : ‖mkC (ρ * Real.cos φ) (ρ * Real.sin φ)‖ = ρ := by
    rw [hz, norm_mul, Complex.norm_exp_ofReal_mul_I, mul_one, Complex.norm_real, Real.norm_eq_abs,
      abs_of_pos hρ]
  have hne : mkC (ρ * Real.cos φ) (ρ * Real.sin φ) ≠ 0 := by
    intro h0; rw [h0, norm_zero] at hn; exact hρ.ne hn
  have hρc : (ρ : ℂ) ≠ 0 := by exact_mod_cast hρ.ne'
  rw [npE_eq_pow, exp_arg_eq _ hne, hn, hz, mul_div_cancel_left₀ _ hρc, ← Complex.exp_nat_mul]
  congr 1; ring

/-- rotating a non-zero bond by α multiplies its contribution by `exp(i l α)` -/
theorem npE_rot (l : ℕ) (x y α : ℝ) (h : ¬ (x = 0 ∧ y = 0)) :
    npE l (x * Real.cos α - y * Real.sin α) (x * Real.sin α + y * Real.cos α)
      = Complex.exp (I * (l : ℂ) * (α : ℂ)) * npE l x y := by
  have hz : mkC (x * Real.cos α - y * Real.sin α) (x * Real.sin α + y * Real.cos α)
      = Complex.exp ((α : ℂ) * I) * mkC x y := by
    rw [Complex.exp_mul_I]; unfold mkC; push_cast
    linear_combination (-(Complex.sin (α : ℂ)) * (y : ℂ)) * Complex.I_sq
  have hne : mkC x y ≠ 0 := fun h0 => h (mkC_eq_zero.mp h0)
  have hn : ‖mkC (x * Real.cos α - y * Real.sin α) (x * Real.sin α + y * Real.cos α)‖ = ‖mkC x y‖ := by
    rw [hz, norm_mul, Complex.norm_exp_ofReal_mul_I, one_mul]
  have hne' : mkC (x * Real.cos α - y * Real.sin α) (x * Real.sin α + y * Real.cos α) ≠ 0 := by
    rw [hz]; exact mul_ne_zero (Complex.exp_ne_zero _) hne
  rw [npE_eq_pow, npE_eq_pow, exp_arg_eq _ hne', exp_arg_eq _ hne, hn, hz, mul_div_assoc, mul_pow,
    ← Complex.exp_nat_mul]
  congr 2; ring

/-- matrix product of index-function matrices -/
def matMul {K : Type} [Add K] [Mul K] [OfNat K 0] (d : ℕ) (A B : ℕ → ℕ → K) : ℕ → ℕ → K :=
  fun i k => sumRange d fun j => A i j * B j k

theorem vecMul_matMul {K : Type} [Field K] (d : ℕ) (v : ℕ → K) (A B : ℕ → ℕ → K) (k : ℕ) :
    Pbc.vecMul d v (matMul d A B) k = Pbc.vecMul d (Pbc.vecMul d v A) B k := by
  rw [Pbc.vecMul_assoc]
  simp only [Pbc.vecMul, matMul, sumRange_eq]

theorem vecMul_sub {K : Type} [Field K] (d : ℕ) (u v : ℕ → K) (M : ℕ → ℕ → K) (k : ℕ) :
    Pbc.vecMul d (fun i => u i - v i) M k = Pbc.vecMul d u M k - Pbc.vecMul d v M k := by
  simp only [Pbc.vecMul, sumRange_eq, ← Finset.sum_sub_distrib]
  exact Finset.sum_congr rfl fun i _ => by ring

/-- `remove_pbc` commutes with any invertible linear map applied to the vectors AND the cell:
`remove_pbc(r·R, H·R) = remove_pbc(r, H)·R` (with `(H·R)⁻¹ = R⁻¹·H⁻¹`) -/
theorem removePbc_linear {K : Type} [Field K] (d : ℕ) (rint : K → ℤ) (H Hinv R Rinv : ℕ → ℕ → K)
    (ppp r : ℕ → K) (hR : Pbc.IsInv d R Rinv) (k : ℕ) :
    Pbc.removePbc d rint (matMul d H R) (matMul d Rinv Hinv) ppp (Pbc.vecMul d r R) k
      = Pbc.vecMul d (Pbc.removePbc d rint H Hinv ppp r) R k := by
  have hf : ∀ a, Pbc.vecMul d (Pbc.vecMul d r R) (matMul d Rinv Hinv) a = Pbc.vecMul d r Hinv a := by
    intro a
    rw [vecMul_matMul]
    apply Pbc.vecMul_congr
    intro i hi
    exact Pbc.vecMul_inv d r R Rinv hR i hi
  unfold Pbc.removePbc
  simp only
  rw [vecMul_matMul]
  apply Pbc.vecMul_congr
  intro i _
  apply Pbc.vecMul_congr
  intro a _
  rw [hf a]


/-- `r * np.exp(1j * θ)` -/
noncomputable def polarC (r θ : ℝ) : ℂ := (r : ℂ) * Complex.exp (I * (θ : ℂ))

/-- `np.conj` -/
noncomputable def conjC (z : ℂ) : ℂ := (starRingEnd ℂ) z

theorem norm_polarC (r θ : ℝ) (hr : 0 ≤ r) : ‖polarC r θ‖ = r := by
  unfold polarC
  have : I * (θ : ℂ) = (θ : ℂ) * I := by ring
  rw [norm_mul, this, Complex.norm_exp_ofReal_mul_I, mul_one, Complex.norm_real, Real.norm_eq_abs,
    abs_of_nonneg hr]

theorem polarC_norm_arg (z : ℂ) : polarC ‖z‖ (Complex.arg z) = z := by
  unfold polarC
  have : I * ((Complex.arg z : ℝ) : ℂ) = ((Complex.arg z : ℝ) : ℂ) * I := by ring
  rw [this]; exact Complex.norm_mul_exp_arg_mul_I z

theorem mul_conj_re_norm (z : ℂ) : (z * conjC z).re = ‖z‖ ^ 2 := by
  unfold conjC
  rw [Complex.mul_conj, Complex.ofReal_re, Complex.normSq_eq_norm_sq]

theorem mul_conj_re_symm (a b : ℂ) : (a * conjC b).re = (b * conjC a).re := by
  unfold conjC
  simp [Complex.mul_re]; ring

theorem mul_conj_unit (c a b : ℂ) (hc : ‖c‖ = 1) : (c * a) * conjC (c * b) = a * conjC b := by
  unfold conjC
  rw [map_mul]
  have : c * (starRingEnd ℂ) c = 1 := by
    rw [Complex.mul_conj, Complex.normSq_eq_norm_sq, hc]; simp
  calc c * a * ((starRingEnd ℂ) c * (starRingEnd ℂ) b)
      = (c * (starRingEnd ℂ) c) * (a * (starRingEnd ℂ) b) := by ring
    _ = a * (starRingEnd ℂ) b := by rw [this, one_mul]

/-- number of time origins for lag k in the double loop -/
theorem tcorrCnt_eq (T k : ℕ) : tcorrCnt T k = T - k := by
  unfold tcorrCnt
  rw [originLoop_eq]
  simp [origin_count]

theorem norm2_neg (v : ℕ → ℝ) : norm2 (fun k => - v k) = norm2 v := by
  unfold norm2; ring


/-- a concrete `np.rint` over ℝ meeting the contract (non-vacuity of the `IsRintHE` hypotheses) -/
noncomputable def rintR (x : ℝ) : ℤ :=
  if |x| ≤ 1/2 then 0 else if 0 < x then ⌊x + 1/2⌋ else -⌊-x + 1/2⌋

theorem rintR_isRintHE : IsRintHE rintR := by
  have hpos : ∀ y : ℝ, |y - (⌊y + 1/2⌋ : ℝ)| ≤ 1/2 := by
    intro y
    have h1 := Int.floor_le (y + 1/2)
    have h2 := Int.lt_floor_add_one (y + 1/2)
    rw [abs_le]; constructor <;> linarith
  refine ⟨?_, ?_, ?_⟩
  · intro x
    unfold rintR
    split_ifs with h1 h2
    · simpa using h1
    · exact hpos x
    · have := hpos (-x)
      push_cast
      rw [show x - -(⌊-x + 1/2⌋ : ℝ) = -(-x - (⌊-x + 1/2⌋ : ℝ)) by ring, abs_neg]
      exact this
  · intro x hx
    unfold rintR
    rw [if_pos hx]
  · intro x
    unfold rintR
    rw [abs_neg]
    split_ifs with h1 h2 h3 h3
    · simp
    · exfalso; linarith
    · simp
    · simp
    · exfalso
      push Not at h1 h2 h3
      have : x = 0 := le_antisymm h3 (by linarith)
      rw [this] at h1; norm_num at h1

end Pms.Boo2d
