import Pms.Model.Boo2d
import Pms.Lemmas.Basic
import Pms.Lemmas.Pbc
import Mathlib.Analysis.SpecialFunctions.Complex.Arg
import Mathlib.Analysis.SpecialFunctions.Trigonometric.Basic
import Mathlib.Analysis.SpecialFunctions.Sqrt
import Mathlib.Analysis.Complex.Norm
import Mathlib.Algebra.BigOperators.Field
import Mathlib.Tactic.Ring
import Mathlib.Tactic.Linarith
import Mathlib.Tactic.FieldSimp
import Mathlib.Tactic.Positivity

/-! Helper definitions and lemmas for C10 (the ℝ/ℂ instance of `Pms.Boo2d`). -/
open Finset
namespace Pms.Boo2d
open Pms Complex

/-- `x + i y` -/
noncomputable def mkC (x y : ℝ) : ℂ := (x : ℂ) + (y : ℂ) * I

/-- CONTRACT model of `np.exp(1j * l * np.arctan2(y, x))`: Mathlib has no `atan2`; `np.arctan2(y, x)`
is modelled by `Complex.arg (x + i y)` (both are the angle in (−π, π] of the point (x, y), both
give 0 at the origin). -/
noncomputable def npE (l : ℕ) (x y : ℝ) : ℂ :=
  Complex.exp (I * (l : ℂ) * ((Complex.arg (mkC x y) : ℝ) : ℂ))

/-- real number as complex (`weights * …` broadcasts a float array against a complex one) -/
noncomputable def ofRC (x : ℝ) : ℂ := (x : ℂ)

theorem cpow_eq {M : Type} [Monoid M] (z : M) (n : ℕ) : cpow z n = z ^ n := by
  induction n with
  | zero => simp [cpow]
  | succ n ih => simp [cpow, ih, pow_succ]

theorem norm_mkC (x y : ℝ) : ‖mkC x y‖ = Real.sqrt (x * x + y * y) := by
  unfold mkC
  rw [Complex.norm_add_mul_I]
  congr 1; ring

theorem mkC_eq_zero {x y : ℝ} : mkC x y = 0 ↔ x = 0 ∧ y = 0 := by
  unfold mkC
  constructor
  · intro h
    have h1 := congrArg Complex.re h
    have h2 := congrArg Complex.im h
    simp at h1 h2
    exact ⟨h1, h2⟩
  · rintro ⟨rfl, rfl⟩; simp

/-- the model's trigonometry-free bond factor is `(z/|z|)^l` -/
theorem unitPow_eq (l : ℕ) (x y : ℝ) :
    unitPow Real.sqrt mkC l x y = (mkC x y / ((‖mkC x y‖ : ℝ) : ℂ)) ^ l := by
  unfold unitPow
  rw [cpow_eq, norm_mkC]
  congr 1
  unfold mkC
  push_cast
  ring

theorem exp_arg_eq (z : ℂ) (hz : z ≠ 0) :
    Complex.exp (((Complex.arg z : ℝ) : ℂ) * I) = z / ((‖z‖ : ℝ) : ℂ) := by
  have h := Complex.norm_mul_exp_arg_mul_I z
  have hn : ((‖z‖ : ℝ) : ℂ) ≠ 0 := by
    simpa using hz
  rw [eq_div_iff hn, mul_comm]
  exact h

theorem npE_eq_pow (l : ℕ) (x y : ℝ) :
    npE l x y = Complex.exp (((Complex.arg (mkC x y) : ℝ) : ℂ) * I) ^ l := by
  unfold npE
  rw [← Complex.exp_nat_mul]
  congr 1; ring

theorem norm_npE (l : ℕ) (x y : ℝ) : ‖npE l x y‖ = 1 := by
  rw [npE_eq_pow, norm_pow, Complex.norm_exp_ofReal_mul_I, one_pow]

theorem npE_zero (l : ℕ) : npE l 0 0 = 1 := by
  unfold npE mkC; simp

end Pms.Boo2d
