import Pms.Model.Pack
import Mathlib.Algebra.BigOperators.Group.List.Basic
import Mathlib.Algebra.Order.BigOperators.Group.List
import Mathlib.Data.Real.Basic
import Mathlib.Analysis.SpecialFunctions.Trigonometric.Inverse
import Mathlib.Tactic.Ring
import Mathlib.Tactic.Linarith

/-! Helper lemmas for `packing_capability_2d` (EXTRA): the loop over `combinations(row, 2)` as a sum, and that sum for a symmetric
summand as half the off-diagonal double sum (hence invariant under permutations of the row). -/
namespace Pms.Pack
open Pms

theorem foldl_add_eq_sum {β : Type} (l : List β) (g : β → ℝ) (a : ℝ) :
    l.foldl (fun acc p => acc + g p) a = a + (l.map g).sum := by
  induction l generalizing a with
  | nil => simp
  | cons x t ih => simp only [List.foldl_cons, List.map_cons, List.sum_cons]; rw [ih]; ring

theorem thetaSum_eq_sum (disp : ℕ → ℕ → ℕ → ℝ) (nb : ℕ → List ℕ) (ref : ℕ → ℕ → ℕ → ℝ) (typ : ℕ → ℕ) (o : ℕ) :
    thetaSum Real.arccos Real.sqrt (fun x => |x|) disp nb ref typ o =
      ((pairs (nb o)).map fun p => term Real.arccos Real.sqrt (fun x => |x|) disp nb ref typ o p.1 p.2).sum := by
  unfold thetaSum
  rw [foldl_add_eq_sum]
  simp

theorem two_mul_pairs_sum (f : ℕ → ℕ → ℝ) (hf : ∀ a b, f a b = f b a) (l : List ℕ) :
    2 * ((pairs l).map fun p => f p.1 p.2).sum =
      (l.map fun a => (l.map fun b => f a b).sum).sum - (l.map fun a => f a a).sum := by
  induction l with
  | nil => simp [pairs]
  | cons a t ih =>
    have h1 : ((pairs (a :: t)).map fun p => f p.1 p.2).sum =
        (t.map fun b => f a b).sum + ((pairs t).map fun p => f p.1 p.2).sum := by
      simp [pairs, List.map_append, List.sum_append, Function.comp_def]
    have h2 : ((a :: t).map fun c => ((a :: t).map fun b => f c b).sum).sum =
        f a a + (t.map fun b => f a b).sum + ((t.map fun c => f c a).sum + (t.map fun c => (t.map fun b => f c b).sum).sum) := by
      simp only [List.map_cons, List.sum_cons]
      rw [List.sum_map_add]
    have h3 : (t.map fun c => f c a) = t.map fun b => f a b := List.map_congr_left fun c _ => hf c a
    rw [h1, h2, h3]
    simp only [List.map_cons, List.sum_cons]
    linarith

theorem isMutual_symm (nb : ℕ → List ℕ) (i j : ℕ) : isMutual nb i j = isMutual nb j i := by
  unfold isMutual; exact Bool.and_comm _ _

theorem cosBetween_symm (sqrt : ℝ → ℝ) (u v : ℕ → ℝ) : cosBetween sqrt u v = cosBetween sqrt v u := by
  unfold cosBetween; ring

theorem term_symm (disp : ℕ → ℕ → ℕ → ℝ) (nb : ℕ → List ℕ) (ref : ℕ → ℕ → ℕ → ℝ) (typ : ℕ → ℕ) (o : ℕ)
    (href : ∀ t a b, ref t a b = ref t b a) (i j : ℕ) :
    term Real.arccos Real.sqrt (fun x => |x|) disp nb ref typ o i j = term Real.arccos Real.sqrt (fun x => |x|) disp nb ref typ o j i := by
  unfold term
  rw [isMutual_symm nb i j, cosBetween_symm Real.sqrt (disp o i) (disp o j), href (typ o) (typ i) (typ j)]

theorem term_congr_perm (disp : ℕ → ℕ → ℕ → ℝ) (nb nb' : ℕ → List ℕ) (ref : ℕ → ℕ → ℕ → ℝ) (typ : ℕ → ℕ) (o : ℕ)
    (hperm : ∀ k, (nb' k).Perm (nb k)) (a b : ℕ) :
    term Real.arccos Real.sqrt (fun x => |x|) disp nb' ref typ o a b = term Real.arccos Real.sqrt (fun x => |x|) disp nb ref typ o a b := by
  unfold term
  have : isMutual nb' a b = isMutual nb a b := by
    unfold isMutual
    rw [Bool.eq_iff_iff]
    simp only [Bool.and_eq_true, List.contains_iff_mem]
    rw [(hperm a).mem_iff, (hperm b).mem_iff]
  rw [this]

end Pms.Pack
