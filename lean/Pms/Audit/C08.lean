import Pms.Props.C08
import Pms.Props.C08Mod

#print axioms Pms.Sph.polyEval_scale
#print axioms Pms.Sph.sqrt_scale
#print axioms Pms.Sph.sgn_sq
#print axioms Pms.Sph.entry_sound
#print axioms Pms.Sph.C08_table
#print axioms Pms.Sph.C08_all_angles
#print axioms Pms.Sph.C08_degrees
#print axioms Pms.Sph.C08_conj
#print axioms Pms.Sph.Y_periodic
#print axioms Pms.Sph.C08_above
#print axioms Pms.Sph.C08_above_source
#print axioms Pms.Sph.C08_dispatch
#print axioms Pms.Sph.C08_legendre_sanity
#print axioms Pms.Sph.C08_unsold_poly
#print axioms Pms.ModShape.C08_module_shape
