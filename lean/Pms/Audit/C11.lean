import Pms.Props.C11

#print axioms Pms.C11.inCut_self
#print axioms Pms.C11.C11_assembly
#print axioms Pms.C11.dist2_symm
#print axioms Pms.C11.block_swap
#print axioms Pms.C11.block_symm_ab
#print axioms Pms.C11.inCut_symm
#print axioms Pms.C11.C11_symmetric
#print axioms Pms.C11.specH_row_sum
#print axioms Pms.C11.C11_translations
#print axioms Pms.C11.C11_pr_range
#print axioms Pms.C11.C11_frequencies
#print axioms Pms.C11.C11_source_shape
