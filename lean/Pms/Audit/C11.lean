import Pms.Props.C11
import Pms.Props.C11Mod

#print axioms Pms.C11.C11_model_block
#print axioms Pms.C11.C11_block_entries
#print axioms Pms.C11.C11_pair_gradient
#print axioms Pms.C11.C11_block_is_second_derivative
#print axioms Pms.C11.C11_lj_block
#print axioms Pms.C11.C11_ipl_block
#print axioms Pms.C11.C11_hh_block
#print axioms Pms.C11.C11_assembly
#print axioms Pms.C11.C11_energy_gradient
#print axioms Pms.C11.C11_gradient_jacobian
#print axioms Pms.C11.C11_hessian_is_second_derivative
#print axioms Pms.C11.C11_symmetric
#print axioms Pms.C11.C11_translations
#print axioms Pms.C11.C11_pr_range
#print axioms Pms.C11.C11_frequencies
#print axioms Pms.C11.C11_source_shape
#print axioms Pms.ModShape.C11_module_shape
