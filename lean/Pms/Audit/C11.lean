import Pms.Props.C11

#print axioms Pms.C11.C11_source_shape
