import Pms.Props.C15

#print axioms Pms.Vec.C15_pr_def
