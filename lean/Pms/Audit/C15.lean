import Pms.Props.C15
import Pms.Props.C15F
import Pms.Props.C15Mod

#print axioms Pms.Vec.C15_pr_def
#print axioms Pms.Vec.C15_pr_spec
#print axioms Pms.Vec.C15_pr_bounds
#print axioms Pms.Vec.C15_pr_scale
#print axioms Pms.Vec.C15_alignment_def
#print axioms Pms.Vec.C15_pq_def
#print axioms Pms.Vec.C15_pq_bounds
#print axioms Pms.Vec.C15_div_curl_def
#print axioms Pms.Vec.C15_div_linear
#print axioms Pms.Vec.C15_vibrability_def
#print axioms Pms.Vec.C15_vibrability_spec
#print axioms Pms.Vec.C15_fft_def
#print axioms Pms.Vec.C15_decomposition
#print axioms Pms.Vec.C15_unitq
#print axioms Pms.Vec.C15_spectrum_split
#print axioms Pms.Vec.C15_group_mean_def
#print axioms Pms.Vec.C15_group_split
#print axioms Pms.Vec.C15_spectra_split
#print axioms Pms.Vec.C15_isLinear_iff
#print axioms Pms.Vec.C15_fft_corr_def
#print axioms Pms.Vec.C15_fft_corr_log_def
#print axioms Pms.Vec.C15_fft_corr_zero_lag
#print axioms Pms.ModShape.C15_module_shape
#print axioms Pms.ModShape.C15_body_shape
