import Pms.Props.Extra

#print axioms Pms.Extra.E_lines_intersection
#print axioms Pms.Extra.E_lines_parallel
#print axioms Pms.Extra.E_triangle_angle
#print axioms Pms.Extra.E_heron
#print axioms Pms.Extra.E_legendre2
#print axioms Pms.Extra.E_inertia_order
#print axioms Pms.Extra.E_triangle_angle_real
#print axioms Pms.Extra.E_legendre2_cos
