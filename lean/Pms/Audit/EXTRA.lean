import Pms.Props.Extra
import Pms.Props.Filon

#print axioms Pms.Extra.E_lines_intersection
#print axioms Pms.Extra.E_lines_parallel
#print axioms Pms.Extra.E_triangle_angle
#print axioms Pms.Extra.E_heron
#print axioms Pms.Extra.E_legendre2
#print axioms Pms.Extra.E_inertia_order
#print axioms Pms.Extra.E_triangle_angle_real
#print axioms Pms.Extra.E_legendre2_cos
#print axioms Pms.Filon.E_filon_source_shape
#print axioms Pms.Filon.E_filon_zero_frequency
#print axioms Pms.Filon.value_panel
#print axioms Pms.Filon.antider_deriv
#print axioms Pms.Filon.integral_quad_cos
#print axioms Pms.Filon.E_filon_panel_exact
