import Pms.Props.Extra
import Pms.Props.Filon
import Pms.Props.WaveX
import Pms.Props.Pack
import Pms.Props.Voropp
import Pms.Props.Lws

#print axioms Pms.Extra.E_lines_intersection
#print axioms Pms.Extra.E_lines_parallel
#print axioms Pms.Extra.E_triangle_angle
#print axioms Pms.Extra.E_heron
#print axioms Pms.Extra.E_legendre2
#print axioms Pms.Extra.E_inertia_order
#print axioms Pms.Extra.E_triangle_angle_real
#print axioms Pms.Extra.E_legendre2_cos
#print axioms Pms.Filon.E_filon_source_shape
#print axioms Pms.Filon.E_filon_zero_frequency
#print axioms Pms.Filon.value_panel
#print axioms Pms.Filon.antider_deriv
#print axioms Pms.Filon.integral_quad_cos
#print axioms Pms.Filon.E_filon_panel_exact
#print axioms Pms.WaveX.E_wavex_source
#print axioms Pms.WaveX.T3_wf
#print axioms Pms.WaveX.T2_wf
#print axioms Pms.WaveX.E_wv_refines
#print axioms Pms.WaveX.E_wavevector_refines
#print axioms Pms.WaveX.E_wavevector3d_mem
#print axioms Pms.WaveX.E_wavevector2d_mem
#print axioms Pms.WaveX.E_wv_sorted
#print axioms Pms.WaveX.E_continuous_refines
#print axioms Pms.WaveX.E_continuous3_mem
#print axioms Pms.WaveX.E_continuous2_mem
#print axioms Pms.WaveX.E_continuous_nodup
#print axioms Pms.Pack.E_pack_ref_symm
#print axioms Pms.Pack.E_pack_unordered
#print axioms Pms.Pack.E_pack_perm
#print axioms Pms.Pack.E_pack_nonneg
#print axioms Pms.Pack.E_pack_cos
#print axioms Pms.Pack.E_pack_ideal_zero
#print axioms Pms.Voropp.E_walls_refines
#print axioms Pms.Voropp.E_walls_no_wall
#print axioms Pms.Voropp.E_walls_counts
#print axioms Pms.Voropp.E_walls_area
#print axioms Pms.Voropp.E_his_rows
#print axioms Pms.Voropp.E_his_total
#print axioms Pms.Voropp.E_his_sorted
#print axioms Pms.Lws.E_lws_source
#print axioms Pms.Lws.E_lws_edge
#print axioms Pms.Lws.E_lws_point
