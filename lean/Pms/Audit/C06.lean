import Pms.Props.C06
import Pms.Props.C06Mod

#print axioms Pms.Dyn.C06_reindex
#print axioms Pms.Dyn.C06_overlap_mode
#print axioms Pms.Dyn.C06_alpha2factor
#print axioms Pms.Dyn.C06_rows
#print axioms Pms.Dyn.C06_time
#print axioms Pms.Dyn.C06_log
#print axioms Pms.Dyn.C06_log_chi4
#print axioms Pms.Dyn.C06_cage
#print axioms Pms.Dyn.C06_wrapped_eq_unwrapped
#print axioms Pms.Dyn.C06_sq4
#print axioms Pms.Dyn.C06_sq4_lag
#print axioms Pms.Dyn.C06_source_shape
#print axioms Pms.ModShape.C06_module_shape
