import Pms.Props.C06

#print axioms Pms.Dyn.C06_reindex
#print axioms Pms.Dyn.C06_overlap_mode
#print axioms Pms.Dyn.C06_alpha2factor
#print axioms Pms.Dyn.C06_rows
