import Pms.Props.C01

#print axioms Pms.Lammps.C01_placeholder
