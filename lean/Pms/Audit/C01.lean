import Pms.Props.C01
import Pms.Props.C01Mod

#print axioms Pms.Lammps.C01_roundtrip
#print axioms Pms.Lammps.C01_frame_count
#print axioms Pms.Lammps.C01_frame_consumed
#print axioms Pms.Lammps.C01_fuel_adequate
#print axioms Pms.Lammps.C01_per_id
#print axioms Pms.Lammps.C01_order_irrelevant
#print axioms Pms.Lammps.C01_wrap
#print axioms Pms.Lammps.C01_wrap_impl
#print axioms Pms.Lammps.C01_bounds_convention
#print axioms Pms.Lammps.C01_bounds_inverse
#print axioms Pms.Lammps.C01_scaled_cartesian
#print axioms Pms.Lammps.C01_unwrapped_verbatim
#print axioms Pms.Lammps.C01_hmatrix_lower
#print axioms Pms.ModShape.C01_module_shape
#print axioms Pms.ModShape.C01_body_shape
