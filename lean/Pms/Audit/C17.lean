import Pms.Props.C17

#print axioms Pms.LocalOrder.C17_tetra_def
#print axioms Pms.LocalOrder.C17_tetra_perfect
