import Pms.Props.C17
import Pms.Props.C17Real
import Pms.Props.C17Src
import Pms.Props.C17Mod

#print axioms Pms.LocalOrder.C17_tetra_def
#print axioms Pms.LocalOrder.C17_tetra_perfect
#print axioms Pms.LocalOrder.C17_tetra_order_independent
#print axioms Pms.LocalOrder.C17_tetra_four_nearest
#print axioms Pms.LocalOrder.C17_tetra_local
#print axioms Pms.LocalOrder.C17_tetra_le_one
#print axioms Pms.LocalOrder.C17_s2_g_def
#print axioms Pms.LocalOrder.C17_s2_def
#print axioms Pms.LocalOrder.C17_s2_full
#print axioms Pms.LocalOrder.C17_s2_rho
#print axioms Pms.LocalOrder.C17_trapz_affine
#print axioms Pms.LocalOrder.C17_trapz_uniform
#print axioms Pms.LocalOrder.C17_nematic_tensor_raw
#print axioms Pms.LocalOrder.C17_nematic_cg_def
#print axioms Pms.LocalOrder.C17_nematic_tensor
#print axioms Pms.LocalOrder.C17_nematic_2d
#print axioms Pms.LocalOrder.C17_nematic_2d_scalar
#print axioms Pms.LocalOrder.C17_gyration_def
#print axioms Pms.LocalOrder.C17_gyration_translation
#print axioms Pms.LocalOrder.C17_gyration_trace
#print axioms Pms.LocalOrder.C17_gyration_descriptors
#print axioms Pms.LocalOrder.C17_gyration_bounds
#print axioms Pms.LocalOrder.C17_gyration_2d
#print axioms Pms.LocalOrder.C17_s2_filter_sq
#print axioms Pms.LocalOrder.C17_s2_integrand_nonneg
#print axioms Pms.LocalOrder.C17_s2_ideal
#print axioms Pms.LocalOrder.C17_s2_nonpos
#print axioms Pms.LocalOrder.C17_tetra_perfect_geometry
#print axioms Pms.LocalOrder.C17_src_gauss
#print axioms Pms.LocalOrder.C17_src_s2_integrand
#print axioms Pms.LocalOrder.C17_src_s2_bin
#print axioms Pms.LocalOrder.C17_src_s2_norms
#print axioms Pms.LocalOrder.C17_src_s2_prefactor
#print axioms Pms.LocalOrder.C17_src_tetra
#print axioms Pms.LocalOrder.C17_src_nematic_entry
#print axioms Pms.LocalOrder.C17_src_nematic_scalar
#print axioms Pms.LocalOrder.C17_src_cg_divisor
#print axioms Pms.LocalOrder.C17_src_gyration
#print axioms Pms.LocalOrder.C17_src_gyration_combos
#print axioms Pms.LocalOrder.C17_src_statements
#print axioms Pms.ModShape.C17_module_shape
