import Pms.Props.C16

#print axioms Pms.Coarse.C16_spatial_avg
#print axioms Pms.Coarse.C16_spatial_refines
#print axioms Pms.Coarse.C16_spatial_frame_local
#print axioms Pms.Coarse.C16_grid_index2
#print axioms Pms.Coarse.C16_grid_index3
#print axioms Pms.Coarse.C16_grid_bijection2
#print axioms Pms.Coarse.C16_grid_bijection3
#print axioms Pms.Coarse.C16_linspace_span
#print axioms Pms.Coarse.C16_linspace_one
#print axioms Pms.Coarse.C16_grid_positions2
#print axioms Pms.Coarse.C16_grid_positions3
