import Pms.Props.C16
import Pms.Props.C16Mod

#print axioms Pms.Coarse.C16_spatial_avg
#print axioms Pms.Coarse.C16_spatial_refines
#print axioms Pms.Coarse.C16_spatial_frame_local
#print axioms Pms.Coarse.C16_grid_index2
#print axioms Pms.Coarse.C16_grid_index3
#print axioms Pms.Coarse.C16_grid_bijection2
#print axioms Pms.Coarse.C16_grid_bijection3
#print axioms Pms.Coarse.C16_linspace_span
#print axioms Pms.Coarse.C16_linspace_one
#print axioms Pms.Coarse.C16_grid_positions2
#print axioms Pms.Coarse.C16_grid_positions3
#print axioms Pms.Coarse.C16_blur_cut
#print axioms Pms.Coarse.C16_dist2_nonneg
#print axioms Pms.Coarse.C16_gauss_weight
#print axioms Pms.Coarse.C16_blur_def
#print axioms Pms.Coarse.C16_blur_refines
#print axioms Pms.Coarse.C16_blur_spec_sq
#print axioms Pms.Coarse.C16_blur_real
#print axioms Pms.Coarse.C16_blur_rank_branches
#print axioms Pms.Coarse.C16_time_interval
#print axioms Pms.Coarse.C16_window_len
#print axioms Pms.Coarse.C16_window_len_rat
#print axioms Pms.Coarse.C16_time_results
#print axioms Pms.Coarse.C16_time_avg
#print axioms Pms.Coarse.C16_time_refines
#print axioms Pms.Coarse.C16_time_middle
#print axioms Pms.Coarse.C16_middle_central
#print axioms Pms.ModShape.C16_module_shape
