import Pms.Props.C03
import Pms.Props.C03Mod

#print axioms Pms.Gr.C03_columns
#print axioms Pms.Gr.C03_selectors
#print axioms Pms.Gr.C03_partition
#print axioms Pms.Gr.C03_dispatch
#print axioms Pms.Gr.C03_refines
#print axioms Pms.Gr.C03_total_any_types
#print axioms Pms.Gr.C03_total
#print axioms Pms.Gr.C03_total_concentrations
#print axioms Pms.Gr.C03_bins
#print axioms Pms.Gr.C03_maxbin
#print axioms Pms.Gr.C03_bin_membership
#print axioms Pms.Gr.C03_bin_unique
#print axioms Pms.Gr.C03_hypotheses_satisfiable
#print axioms Pms.ModShape.C03_module_shape
