import Pms.Props.C03

#print axioms Pms.Gr.C03_columns
#print axioms Pms.Gr.C03_selectors
#print axioms Pms.Gr.C03_partition
