import Pms.Props.C12
import Pms.Props.C12Mod

#print axioms Pms.C12.hasDerivAt_div_id
#print axioms Pms.C12.C12_lj_d1
#print axioms Pms.C12.C12_lj_d2
#print axioms Pms.C12.C12_lj_cut_shift
#print axioms Pms.C12.C12_ipl_d1
#print axioms Pms.C12.C12_ipl_d2
#print axioms Pms.C12.C12_ipl_cut_shift
#print axioms Pms.C12.hasDerivAt_one_sub_div
#print axioms Pms.C12.C12_hh_d1
#print axioms Pms.C12.C12_hh_d2
#print axioms Pms.C12.C12_hh_cut_shift
#print axioms Pms.C12.C12_hh_d1_int
#print axioms Pms.C12.C12_hh_d2_int
#print axioms Pms.C12.C12_caller
#print axioms Pms.ModShape.C12_module_shape
