import Pms.Props.C09
import Pms.Props.C09Add
import Pms.Props.C09Mod

#print axioms Pms.Boo.C09_qlm_def
#print axioms Pms.Boo.C09_weighted_def
#print axioms Pms.Boo.C09_equal_weights
#print axioms Pms.Boo.C09_coarse_def
#print axioms Pms.Boo.C09_ql_def
#print axioms Pms.Boo.C09_sij_def
#print axioms Pms.Boo.C09_count_def
#print axioms Pms.Boo.C09_sij_bound
#print axioms Pms.Boo.C09_count_le
#print axioms Pms.Boo.C09_ql_le_one
#print axioms Pms.Boo.C09_sumSq_bound
#print axioms Pms.Boo.C09_ql_bounds
#print axioms Pms.Boo.C09_sumSq_bound_weighted
#print axioms Pms.Boo.C09_ql_bounds_weighted
#print axioms Pms.Boo.C09_Ql_bounds
#print axioms Pms.Boo.C09_w_def
#print axioms Pms.Boo.C09_w_source
#print axioms Pms.Boo.C09_w_odd_zero
#print axioms Pms.Boo.C09_wcap_def
#print axioms Pms.Boo.C09_timecorr_def
#print axioms Pms.Boo.C09_corr_def
#print axioms Pms.Boo.C09_spatial_def
#print axioms Pms.Boo.C09_frame_mean
#print axioms Pms.Boo.C09_angles
#print axioms Pms.Boo.C09_unsold
#print axioms Pms.Boo.C09_unsold_model
#print axioms Pms.Boo.C09_ql_bounds_model
#print axioms Pms.Boo.C09_addition_theorem
#print axioms Pms.Boo.C09_addition_diagonal
#print axioms Pms.Boo.C09_ql_cosines
#print axioms Pms.Boo.C09_reference_shells
#print axioms Pms.Boo.C09_reference_shells_rotated
#print axioms Pms.ModShape.C09_module_shape
