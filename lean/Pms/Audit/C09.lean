import Pms.Props.C09

#print axioms Pms.Boo.C09_qlm_def
