import Pms.Props.C05
import Pms.Props.C05Mod

#print axioms Pms.Neigh.C05_nnearest
#print axioms Pms.Neigh.C05_nnearest_unique
#print axioms Pms.Neigh.C05_cutoff_unique
#print axioms Pms.Neigh.C05_nnearest_defined_iff
#print axioms Pms.Neigh.C05_cutoff
#print axioms Pms.Neigh.C05_cutoff_type
#print axioms Pms.Neigh.C05_symmetric
#print axioms Pms.Neigh.C05_sqrt_free
#print axioms Pms.Neigh.C05_source_constants
#print axioms Pms.Neigh.C05_contracts_satisfiable
#print axioms Pms.Neigh.C05_cutoff_written
#print axioms Pms.Neigh.C05_cutoff_type_written
#print axioms Pms.Neigh.C05_nnearest_written
#print axioms Pms.Neigh.C05_file_roundtrip_step
#print axioms Pms.Neigh.C05_file_roundtrip
#print axioms Pms.Neigh.C05_cutoff_via_file
#print axioms Pms.Neigh.C05_weights_branch
#print axioms Pms.Neigh.C05_int_roundtrip
#print axioms Pms.ModShape.C05_module_shape
