import Pms.Props.C05

#print axioms Pms.Neigh.C05_header_is_neighborlist
