import Pms.Props.C19
import Pms.Props.C19Mod

#print axioms Pms.AuxIo.C19_header_roundtrip
#print axioms Pms.AuxIo.C19_header_fields
#print axioms Pms.AuxIo.C19_header_bounds_close
#print axioms Pms.AuxIo.C19_header_roundtrip_all
#print axioms Pms.AuxIo.C19_data_header_layout
#print axioms Pms.AuxIo.C19_centertype
#print axioms Pms.AuxIo.C19_centertype_frame
#print axioms Pms.AuxIo.C19_centertype_exact
#print axioms Pms.AuxIo.C19_centertype_relabel
#print axioms Pms.AuxIo.C19_vector_columns
#print axioms Pms.AuxIo.C19_column_meaning
#print axioms Pms.AuxIo.C19_additions
#print axioms Pms.AuxIo.C19_gsd
#print axioms Pms.AuxIo.C19_gsd_dcd
#print axioms Pms.AuxIo.C19_gsd_fields
#print axioms Pms.AuxIo.C19_gsd_wrong_dim
#print axioms Pms.AuxIo.C19_additions_slices
#print axioms Pms.AuxIo.C19_log_sections
#print axioms Pms.AuxIo.C19_log_count
#print axioms Pms.AuxIo.C19_log_incomplete
#print axioms Pms.ModShape.C19_module_shape
