import Pms.Props.C10
import Pms.Props.C10Mod

#print axioms Pms.Boo2d.C10_atan2_form
#print axioms Pms.Boo2d.C10_atan2_origin
#print axioms Pms.Boo2d.C10_def
#print axioms Pms.Boo2d.C10_weighted_def
#print axioms Pms.Boo2d.C10_equal_weights
#print axioms Pms.Boo2d.C10_modulus_le_one
#print axioms Pms.Boo2d.C10_modulus_le_one_weighted
#print axioms Pms.Boo2d.C10_lattice
#print axioms Pms.Boo2d.C10_lattice_weighted
#print axioms Pms.Boo2d.C10_rotation
#print axioms Pms.Boo2d.C10_rotation_system
#print axioms Pms.Boo2d.C10_time_average_def
#print axioms Pms.Boo2d.C10_window
#print axioms Pms.Boo2d.C10_time_average_props
#print axioms Pms.Boo2d.C10_time_corr_def
#print axioms Pms.Boo2d.C10_time_corr_props
#print axioms Pms.Boo2d.C10_spatial_corr_def
#print axioms Pms.Boo2d.C10_spatial_corr_bins
#print axioms Pms.ModShape.C10_module_shape
#print axioms Pms.ModShape.C10_body_shape
