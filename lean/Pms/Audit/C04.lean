import Pms.Props.C04

#print axioms Pms.Sq.C04_dispatch
#print axioms Pms.Sq.C04_routing
#print axioms Pms.Sq.C04_products_norm
