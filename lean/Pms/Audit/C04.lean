import Pms.Props.C04
import Pms.Props.C04Mod

#print axioms Pms.Sq.C04_dispatch
#print axioms Pms.Sq.C04_routing
#print axioms Pms.Sq.C04_products_norm
#print axioms Pms.Sq.C04_dispatch_many
#print axioms Pms.Sq.C04_refines
#print axioms Pms.Sq.C04_spec_lookup
#print axioms Pms.Sq.C04_table
#print axioms Pms.Sq.C04_sumrule
#print axioms Pms.Sq.C04_sumrule_returned
#print axioms Pms.Sq.C04_diag_nonneg
#print axioms Pms.Sq.C04_group
#print axioms Pms.Sq.C04_unique
#print axioms Pms.Sq.C04_density_modes
#print axioms Pms.Sq.C04_density_modes_q
#print axioms Pms.Sq.C04_wave_source
#print axioms Pms.Sq.C04_default_vectors
#print axioms Pms.Sq.C04_source_shape
#print axioms Pms.ModShape.C04_module_shape
