import Pms.Props.C14
import Pms.Props.C14Mod

#print axioms Pms.TimeCorr.C14_table_ok
#print axioms Pms.TimeCorr.C14_dispatch
#print axioms Pms.TimeCorr.C14_bad_shape
#print axioms Pms.TimeCorr.C14_linear
#print axioms Pms.TimeCorr.C14_log
#print axioms Pms.TimeCorr.C14_tensor_counts
#print axioms Pms.TimeCorr.C14_tensor_counts_value
#print axioms Pms.TimeCorr.C14_conj_symmetry
#print axioms Pms.TimeCorr.C14_detection
#print axioms Pms.TimeCorr.C14_single_frame
#print axioms Pms.TimeCorr.C14_refines
#print axioms Pms.TimeCorr.C14_lag0_is_one
#print axioms Pms.TimeCorr.C14_lag0_zero_iff
#print axioms Pms.TimeCorr.C14_time_axis
#print axioms Pms.TimeCorr.C14_complex
#print axioms Pms.TimeCorr.C14_real
#print axioms Pms.ModShape.C14_module_shape
