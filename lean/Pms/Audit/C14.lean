import Pms.Props.C14

#print axioms Pms.TimeCorr.C14_columns
