import Pms.Props.C20

#print axioms Pms.Voro.C20_stub
