import Pms.Props.C20
import Pms.Props.C20Mod

#print axioms Pms.Voro.C20_rows
#print axioms Pms.Voro.C20_rows_shape
#print axioms Pms.Voro.C20_overall_lines
#print axioms Pms.Voro.C20_guard_partial
#print axioms Pms.Voro.C20_guard_raises
#print axioms Pms.Voro.C20_guard_FullStatement_refuted
#print axioms Pms.Voro.C20_symmetry_preserved
#print axioms Pms.Voro.C20_weights_rounding
#print axioms Pms.Voro.C20_volume_sum
#print axioms Pms.Voro.C20_weights_file_roundtrip
#print axioms Pms.Voro.C20_reader_handoff
#print axioms Pms.Voro.C20_volume_refines
#print axioms Pms.Voro.C20_rowsum_zero
#print axioms Pms.Voro.C20_transform_projector
#print axioms Pms.Voro.C20_frame_index
#print axioms Pms.Voro.C20_frame_independent
#print axioms Pms.Voro.C20_perturb_restores
#print axioms Pms.Voro.C20_convert
#print axioms Pms.Voro.C20_source_constants
#print axioms Pms.Voro.C20_source_shape
#print axioms Pms.ModShape.C20_module_shape
