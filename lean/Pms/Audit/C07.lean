import Pms.Props.C07

#print axioms Pms.Sym.C07_translation_disp
#print axioms Pms.Sym.C07_translation_gr
#print axioms Pms.Sym.C07_translation_sq
#print axioms Pms.Sym.C07_rot_dot
