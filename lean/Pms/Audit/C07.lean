import Pms.Props.C07
import Pms.Props.C07Sq
import Pms.Props.C07Rot
import Pms.Props.C07Pair
import Pms.Props.C07Dyn
import Pms.Props.C07Ql
import Pms.Props.C07Mod

#print axioms Pms.Sym.C07_translation_disp
#print axioms Pms.Sym.C07_translation_gr
#print axioms Pms.Sym.C07_translation_sq
#print axioms Pms.Sym.C07_image_disp
#print axioms Pms.Sym.C07_image_gr
#print axioms Pms.Sym.C07_relabel_gr
#print axioms Pms.Sym.C07_species_swap_gr
#print axioms Pms.Sym.C07_axis_perm_disp
#print axioms Pms.Sym.C07_axis_perm_gr
#print axioms Pms.Sym.C07_dilation_gr
#print axioms Pms.Sym.C07_rot_dot
#print axioms Pms.Sym.C07_translation_sq_spec
#print axioms Pms.Sym.C07_relabel_sq
#print axioms Pms.Sym.C07_species_swap_sq
#print axioms Pms.Sym.C07_axis_perm_sq
#print axioms Pms.Sym.C07_translation_sq_real
#print axioms Pms.Sym.C07_image_sq
#print axioms Pms.Sym.C07_image_sq_spec
#print axioms Pms.Sym.C07_rot_open_disp
#print axioms Pms.Sym.C07_rot_tetra
#print axioms Pms.Sym.C07_rot_pr
#print axioms Pms.Sym.C07_rot_gyration
#print axioms Pms.Sym.C07_axis_perm_ortho
#print axioms Pms.Sym.C07_axis_perm_rotinv
#print axioms Pms.Sym.C07_rot_psi2d
#print axioms Pms.Sym.C07_rot_ql_partial
#print axioms Pms.Sym.C07_translation_models
#print axioms Pms.Sym.C07_image_models
#print axioms Pms.Sym.C07_translation_neigh
#print axioms Pms.Sym.C07_image_neigh
#print axioms Pms.Sym.C07_axes_rot_dist2
#print axioms Pms.Sym.C07_relabel_neigh
#print axioms Pms.Sym.C07_relabel_s2
#print axioms Pms.Sym.C07_relabel_tetra
#print axioms Pms.Sym.C07_translation_hess
#print axioms Pms.Sym.C07_relabel_hess
#print axioms Pms.Sym.C07_translation_dyn
#print axioms Pms.Sym.C07_image_dyn
#print axioms Pms.Sym.C07_relabel_dyn
#print axioms Pms.Sym.C07_relabel_boo
#print axioms Pms.Sym.C07_relabel_psi2d
#print axioms Pms.Sym.C07_rot_ql
#print axioms Pms.Sym.C07_scale_ql
#print axioms Pms.Sym.C07_rot_Ql
#print axioms Pms.Sym.C07_rot_sij
#print axioms Pms.ModShape.C07_module_shape
