import Pms.Props.C02
import Pms.Props.C02Mod

#print axioms Pms.Pbc.C02_lattice
#print axioms Pms.Pbc.C02_frac
#print axioms Pms.Pbc.C02_halfcell
#print axioms Pms.Pbc.C02_shift_invariant
#print axioms Pms.Pbc.C02_idempotent
#print axioms Pms.Pbc.C02_odd
#print axioms Pms.Pbc.abs_le_abs_add_int
#print axioms Pms.Pbc.C02_orthogonal_shortest
#print axioms Pms.Pbc.C02_contract_satisfiable
#print axioms Pms.ModShape.C02_module_shape
#print axioms Pms.ModShape.C02_body_shape
