import Pms.Props.C13
import Pms.Props.C13Mod

#print axioms Pms.Cond.C13_dispatch
#print axioms Pms.Cond.C13_gr_def
#print axioms Pms.Cond.C13_bool_is_partial
#print axioms Pms.Cond.C13_ones_is_total
#print axioms Pms.Cond.C13_vector_is_sum_of_components
#print axioms Pms.Cond.C13_norm_variant
#print axioms Pms.Cond.C13_tensor_symmetric
#print axioms Pms.Cond.C13_gr_bins
#print axioms Pms.Cond.C13_sq_dispatch
#print axioms Pms.Cond.C13_sq_def
#print axioms Pms.Cond.C13_sq_bool_is_partial
#print axioms Pms.Cond.C13_sq_ones_is_total
#print axioms Pms.Cond.C13_sq_vector_is_sum_of_components
#print axioms Pms.Cond.C13_sq_group
#print axioms Pms.Cond.C13_weight_complex
#print axioms Pms.Cond.C13_sq_complex
#print axioms Pms.Cond.C13_hypotheses_satisfiable
#print axioms Pms.ModShape.C13_module_shape
