import Pms.Props.C18

#print axioms Pms.Purity.C18_sound
#print axioms Pms.Purity.C18_interleaving
#print axioms Pms.Purity.C18_repeatable
#print axioms Pms.Purity.C18_written_is_returned
#print axioms Pms.Gen.Purity.C18_all_routines
#print axioms Pms.Gen.Purity.C18_registry
#print axioms Pms.Gen.Purity.C18_hidden_state
