import Pms.Props.C18
import Pms.Props.C18Mod

#print axioms Pms.Purity.C18_sound
#print axioms Pms.Purity.C18_interleaving
#print axioms Pms.Purity.C18_repeatable
#print axioms Pms.Purity.C18_written_is_returned
#print axioms Pms.Gen.Purity.C18_all_routines
#print axioms Pms.Gen.Purity.C18_registry
#print axioms Pms.Gen.Purity.C18_hidden_state
#print axioms Pms.ModShape.C18_module_shape
#print axioms Pms.ModShape.C18_body_shape
