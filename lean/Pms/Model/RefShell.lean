import Pms.Model.PolyN
/-!
Reference neighbour shells (perfect fcc, hcp, bcc with 8 or 14 neighbours, simple cubic) in INTEGER coordinates and
their exact Steinhardt invariants for even l:

  q_l² = (1/N²) Σ_{j,j'} P_l(cos γ_jj'),   P_l even ⇒ P_l(c) = Pe_l(c²),   c² = (b_j·b_j')² / (|b_j|²|b_j'|²) ∈ ℚ.

(the first equality is the addition theorem, proved in `Pms.Lemmas.Addition`).  hcp is written in the cubic axes of the
fcc lattice with (111) as stacking direction: six in-plane bonds, three "up" bonds, and the three "down" bonds obtained by
MIRRORING the up bonds in the (111) plane (fcc would invert them) — times 3 to make them integers.
-/
namespace Pms.RefShell
open Pms.Sph

abbrev V3 := Int × Int × Int

def idot (b c : V3) : Int := b.1 * c.1 + b.2.1 * c.2.1 + b.2.2 * c.2.2

/-- squared cosine of the angle between two integer vectors -/
def cos2 (b c : V3) : Rat := ((idot b c * idot b c : Int) : Rat) / ((idot b b * idot c c : Int) : Rat)

def pm : List Int := [1, -1]

def fcc : List V3 :=
  (pm.flatMap fun a => pm.map fun b => (a, b, 0)) ++ (pm.flatMap fun a => pm.map fun b => (a, 0, b)) ++
  (pm.flatMap fun a => pm.map fun b => (0, a, b))

def bcc8 : List V3 := pm.flatMap fun a => pm.flatMap fun b => pm.map fun c => (a, b, c)

def sc : List V3 := [(1, 0, 0), (-1, 0, 0), (0, 1, 0), (0, -1, 0), (0, 0, 1), (0, 0, -1)]

def bcc14 : List V3 := bcc8 ++ sc.map fun v => (2 * v.1, 2 * v.2.1, 2 * v.2.2)

def hcp : List V3 :=
  [(3, -3, 0), (-3, 3, 0), (3, 0, -3), (-3, 0, 3), (0, 3, -3), (0, -3, 3),
   (3, 3, 0), (3, 0, 3), (0, 3, 3),
   (-1, -1, -4), (-1, -4, -1), (-4, -1, -1)]

def shellOf : String → List V3
  | "fcc" => fcc
  | "hcp" => hcp
  | "bcc8" => bcc8
  | "bcc14" => bcc14
  | "sc" => sc
  | _ => []

/-- coefficients of even powers -/
def evenPart : List Rat → List Rat
  | [] => []
  | [a] => [a]
  | a :: _ :: p => a :: evenPart p

/-- all coefficients of odd powers vanish -/
def isEven : List Rat → Bool
  | [] => true
  | [_] => true
  | _ :: b :: p => b == 0 && isEven p

def evalQ : List Rat → Rat → Rat
  | [], _ => 0
  | a :: p, x => a + x * evalQ p x

def listSumQ : List Rat → Rat
  | [] => 0
  | a :: t => a + listSumQ t

/-- exact q_l² of the centre of a shell (even l) -/
def ql2 (l : Nat) (sh : List V3) : Rat :=
  listSumQ (sh.map fun b => listSumQ (sh.map fun c => evalQ (evenPart (legendre l)) (cos2 b c)))
    / ((sh.length * sh.length : Nat) : Rat)

/-- tabulated values (Steinhardt, Nelson, Ronchetti 1983; Lechner & Dellago 2008, table I), in units of 1e-6 -/
def tabulated : List (String × Nat × Nat) :=
  [("fcc", 4, 190941), ("fcc", 6, 574524), ("hcp", 4, 97222), ("hcp", 6, 484762),
   ("bcc14", 4, 36369), ("bcc14", 6, 510688), ("bcc8", 4, 509175), ("bcc8", 6, 628539),
   ("sc", 4, 763763), ("sc", 6, 353553)]

/-- |√R − t·1e-6| ≤ 1e-6, decided on squares:  (t−1)² ≤ R·1e12 ≤ (t+1)²  with t ≥ 1 -/
def tabOK (e : String × Nat × Nat) : Bool :=
  let R := ql2 e.2.1 (shellOf e.1) * 1000000000000
  decide (1 ≤ e.2.2) && decide ((((e.2.2 - 1) * (e.2.2 - 1) : Nat) : Rat) ≤ R) && decide (R ≤ (((e.2.2 + 1) * (e.2.2 + 1) : Nat) : Rat))

/-- every bond of the shell is non-zero, the shell is non-empty and P_l is even -/
def shellOK (l : Nat) (sh : List V3) : Bool :=
  !sh.isEmpty && sh.all (fun b => decide (0 < idot b b)) && isEven (legendre l)

end Pms.RefShell
