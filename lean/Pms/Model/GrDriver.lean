-- DRIVER: gr Pms.Gr.handleGr
import Pms.Model.Gr
import Pms.Model.Io
import Pms.Model.PbcDriver
import Pms.Gen.Gr
/-! Driver operation for C03 (exact ℚ): evaluates `Impl` (with the REGENERATED tables) and `Spec` of
`Pms/Model/Gr.lean` on one trajectory and reports the decision margins. -/
namespace Pms.Gr
open Pms Pms.Io

/-- float64 value of `np.pi` as an exact rational (contract: π is this constant up to 1.3e-16) -/
def piRat : Rat := (884279719003555 : Rat) / 281474976710656

def insertSorted (x : Nat) : List (Nat × Nat) → List (Nat × Nat)
  | [] => [(x, 1)]
  | (y, c) :: rest => if x = y then (y, c + 1) :: rest else if x < y then (x, 1) :: (y, c) :: rest else (y, c) :: insertSorted x rest

/-- np.unique(…, return_counts=True): sorted distinct values with their counts -/
def uniqueCounts (typ : Nat → Nat) (N : Nat) : List (Nat × Nat) :=
  (List.range N).foldl (fun acc i => insertSorted (typ i) acc) []

def mu0 : Rat := (1 : Rat) / 1000000

/-- margin of the bin decisions of one squared distance: min over the edges e_k = kδ (k = 1..maxbin) of
|x − e_k²| / (2 e_k + μ₀); a value ≥ μ₀ guarantees |√x − e_k| ≥ μ₀ -/
def edgeMargin (δ : Rat) (maxbin : Nat) (x : Rat) : Rat :=
  (List.range maxbin).foldl (fun m k =>
    let e := ((k + 1 : Nat) : Rat) * δ
    let v := Pbc.absRat (x - e * e) / (2 * e + mu0)
    if v < m then v else m) 1

def joinCols (cols : List (String × List Rat)) : String :=
  " ; ".intercalate (cols.map fun (n, vs) => n ++ " " ++ joinRat vs)

/-- `gr d T N ppp[d] box[d] rdelta (H[d*d] types[N] pos[N*d])×T`
 → `margin mbMargin maxbin K method ; r … ; gr … ; gr11 … | gr … ; gr11 …`   (Impl | Spec) -/
def handleGr (toks : List String) : Option String := do
  let (hd, rest) ← takeMap parseNatDigits 3 toks
  let d := hd.getD 0 0; let T := hd.getD 1 0; let N := hd.getD 2 0
  if d = 0 ∨ d > 3 ∨ T = 0 ∨ N < 2 then none
  let (ps, rest) ← takeMap parseRat d rest
  let (bs, rest) ← takeMap parseRat d rest
  let (dl, rest) ← takeMap parseRat 1 rest
  let δ := dl.headD 0
  if δ ≤ 0 then none
  let mut rest := rest
  let mut frames : Array (Frame Rat) := #[]
  for _ in List.range T do
    let (hs, r1) ← takeMap parseRat (d*d) rest
    let (ts, r2) ← takeMap parseNatDigits N r1
    let (xs, r3) ← takeMap parseRat (N*d) r2
    rest := r3
    -- concrete arrays, closed over (a partially applied `arrFn`/`memo` would rebuild its array on every read)
    let hA := hs.toArray; let tA := ts.toArray; let xA := xs.toArray
    let H : Nat → Nat → Rat := fun i j => hA.getD (i * d + j) 0
    let inv := Pbc.inverse d H
    let iA : Array Rat := Array.ofFn (n := d * d) fun q => inv (q.val / d) (q.val % d)
    frames := frames.push { pos := fun i k => xA.getD (i * d + k) 0, typ := fun i => tA.getD i 0, H := H,
                            Hinv := fun i j => iA.getD (i * d + j) 0 }
  if !rest.isEmpty then none
  let dflt : Frame Rat := { pos := fun _ _ => 0, typ := fun _ => 0, H := fun _ _ => 0, Hinv := fun _ _ => 0 }
  let frameFn : Nat → Frame Rat := fun f => frames.getD f dflt
  let uc := uniqueCounts (frameFn 0).typ N
  let K := uc.length
  let tcs := uc.map (·.2)
  let pA := ps.toArray; let bA := bs.toArray; let cA := tcs.toArray
  let tr0 : Traj Rat := { d := d, N := N, T := T, frame := frameFn, ppp := fun i => pA.getD i 0, box := fun i => bA.getD i 0,
                          rdelta := δ, maxbin := 0, pi := piRat, typecount := fun i => cA.getD i 0 }
  let D := Pms.Gen.Gr.defs
  let x := Impl.maxbinArg D tr0
  if x < 0 then none
  let fl := x.floor
  let maxbin := fl.toNat
  let mbMargin := let a := x - (fl : Rat); let b := (fl : Rat) + 1 - x; if a < b then a else b
  let tr : Traj Rat := { tr0 with maxbin := maxbin }
  -- squared distances, tabulated once
  let tab : Array (Array (Array Rat)) := Array.ofFn (n := T) fun f =>
    Array.ofFn (n := N) fun i => Array.ofFn (n := N) fun j => dist2 ratRint tr f.val i.val j.val
  let d2 : Nat → Nat → Nat → Rat := fun f i j => ((tab.getD f #[]).getD i #[]).getD j 0
  -- the model's bin predicate `binOf tr d2`, tabulated once per pair: the index of the (unique, C03_bin_unique) bin
  -- accepted by `inBin`, or maxbin when the pair is outside the histogram range
  let binTab : Array (Array (Array Nat)) := Array.ofFn (n := T) fun f =>
    Array.ofFn (n := N) fun i => Array.ofFn (n := N) fun j =>
      ((List.range maxbin).find? fun k => binOf tr d2 f.val i.val j.val k).getD maxbin
  let bin : Nat → Nat → Nat → Nat → Bool := fun f i j k => ((binTab.getD f #[]).getD i #[]).getD j maxbin == k
  -- margins: rint ties of the fractional coordinates on periodic axes, and bin edges
  let mut margin : Rat := 1
  for f in List.range T do
    let fr := frameFn f
    for i in List.range N do
      for j in List.range N do
        if i < j then
          let fc := Pbc.frac d fr.Hinv (fun k => fr.pos j k - fr.pos i k)
          for k in List.range d do
            if tr.ppp k ≠ 0 then
              let mg := Pbc.tieMargin (fc k)
              if mg < margin then margin := mg
          let em := edgeMargin δ maxbin (d2 f i j)
          if em < margin then margin := em
  let mname := (dispatchEval Pms.Gen.Gr.dispatch K).getD "none"
  let head := s!"{showRat margin} {showRat mbMargin} {maxbin} {K} {mname}"
  let ks := List.range maxbin
  let impl : List (String × List Rat) :=
    match findMethod Pms.Gen.Gr.methods mname with
    | none => []
    | some M =>
      ("r", ks.map fun k => Impl.r D M tr k) ::
        M.cols.map fun col => (col.name, ks.map fun k => Impl.valueOf D M tr bin col k)
  let specPairs := if K ≤ 5 ∧ K ≥ 2 then expectedPairs K else []
  let spec : List (String × List Rat) :=
    ("r", ks.map fun k => Spec.r tr k) ::
    ("gr", ks.map fun k => Spec.gTotalOf tr bin k) ::
      specPairs.map fun p => (pairName p, ks.map fun k => Spec.gOf tr bin p.1 p.2 k)
  let specMb := (Spec.maxbinArg tr).floor.toNat
  pure (head ++ " ; " ++ joinCols impl ++ s!" | {specMb} ; " ++ joinCols spec)

end Pms.Gr
