import Pms.Model.Lammps
/-!
Model for C19 — the header writer and the auxiliary readers:

* `lammps_writer.py::{write_dump_header, write_data_header}` — `Template`/`render`: the header as token lines.  The
  templates themselves are REGENERATED from the source (`Pms/Gen/Writer.lean`); `render` is their interpreter.
* `lammps_reader_helper.py::{read_lammps_centertype, read_lammps_vector}` (+ wrappers) and `read_additions`,
* `gsd_reader_helper.py::{read_gsd, read_gsd_dcd}` on duck-typed HOOMD frames,
* `simulation_log.py::read_lammpslog`.

Files are token lines exactly as in `Pms.Lammps` (C01): `str.split`, `int()`, `float()` are primitives.  `Impl.*`
mirrors the Python step for step (reusing C01's `readBoxRows`, `readAtoms`, `placeLine` for the shared header/atom
loop); `Spec.*` is what the property says must come back.  Everything is operation-polymorphic (`α = Rat` in the
driver, an ordered field in the theorems).
-/
namespace Pms.AuxIo
open Pms Pms.Lammps Pms.Lammps.Impl

/-! ## the header writer -/

/-- one whitespace-separated item of a header line -/
inductive Item where
  | word (s : String)                       -- literal text
  | numlit (num : Int) (den : Nat)          -- literal numeral, e.g. `-0.5`
  | timestep                                -- `str(timestep)`
  | nparticle                               -- `str(nparticle)` / `{nparticle}`
  | ntypes                                  -- `{nparticle_type}`
  | bound (i j dec : Nat)                   -- `{boxbounds[i][j]:.<dec>f}`
  | const (num : Int) (den : Nat) (dec : Nat)   -- `{<float literal>:.<dec>f}`
  | addson                                  -- `{addson}`: zero or more words
  deriving DecidableEq, Repr

/-- a header-writing function: lines before `if len(boxbounds) == dimTest`, the two branches, lines after -/
structure Template where
  dimTest : Nat
  common : List (List Item)
  dimA : List (List Item)
  dimB : List (List Item)
  tail : List (List Item)
  deriving DecidableEq, Repr

/-- the arguments of the writers; `addson` is `str(addson).split()` -/
structure HeaderData (α : Type) where
  timestep : Int
  nparticle : Int
  ntypes : Int
  nbb : Nat                 -- `len(boxbounds)`
  bb : Nat → Nat → α        -- `boxbounds[i][j]`
  addson : List String

section writer
variable {α : Type} [Div α] [IntCast α] [NatCast α]

/-- `pr` renders a number as a token, `rnd d x` is `x` rounded to `d` decimals (what `f"{x:.<d>f}"` prints) -/
def renderItem (pr : α → Tok α) (rnd : Nat → α → α) (d : HeaderData α) : Item → Line α
  | .word s => [.word s]
  | .numlit n m => [pr ((n : α) / (m : α))]
  | .timestep => [.int d.timestep]
  | .nparticle => [.int d.nparticle]
  | .ntypes => [.int d.ntypes]
  | .bound i j k => [pr (rnd k (d.bb i j))]
  | .const n m k => [pr (rnd k ((n : α) / (m : α)))]
  | .addson => d.addson.map .word

def renderLine (pr : α → Tok α) (rnd : Nat → α → α) (d : HeaderData α) (l : List Item) : Line α :=
  l.flatMap (renderItem pr rnd d)

/-- the returned string, as the token lines a reader sees -/
def render (pr : α → Tok α) (rnd : Nat → α → α) (t : Template) (d : HeaderData α) : Lines α :=
  (t.common ++ (if d.nbb = t.dimTest then t.dimA else t.dimB) ++ t.tail).map (renderLine pr rnd d)

end writer

variable {α : Type} [Add α] [Sub α] [Mul α] [OfNat α 0] [IntCast α] [LT α] [DecidableLT α]

/-! ## Impl -/
namespace Impl

/-- `while True: snapshot = step(f); if not snapshot: break; snapshots.append(snapshot)` -/
def loopFuel (step : Lines α → Except Err (Option (Frame α × Lines α))) : Nat → Lines α → Except Err (List (Frame α))
  | 0, _ => .ok []
  | fuel+1, ls => do
      match ← step ls with
      | none => .ok []
      | some (fr, rest) => do
          let more ← loopFuel step fuel rest
          .ok (fr :: more)

/-- numpy boolean-mask indexing `arr[conditions]` -/
def mask {β : Type} : List Bool → List β → List β
  | true :: bs, x :: xs => x :: mask bs xs
  | false :: bs, _ :: xs => mask bs xs
  | _, _ => []

/-- elementwise `[floats] * boxlength` -/
def mulRow : List α → List α → List α
  | s :: ss, l :: ls => (s * l) :: mulRow ss ls
  | _, _ => []

/-- row `+ boxbounds[:, 0]` -/
def addRow : List α → List α → List α
  | x :: xs, o :: os => (x + o) :: addRow xs os
  | _, _ => []

/-- `xs` branch of the centre reader: `[float(j) for j in item[2: ndim + 2]] * boxlength` -/
def scaledNoOrigin (nd : Nat) (len : List α) (it : Line α) : Except Err (List α) := do
  let vs ← sliceFloats nd it
  let vs ← fitRow nd vs
  .ok (mulRow vs len)

/-- the common 9-line header of the auxiliary readers (orthogonal only: no `'xy' in item` test):
returns timestep, N, boxbounds rows, the tokens of the `ITEM: ATOMS` line after the first two, remaining lines -/
def auxHeader (nd : Nat) (ls : Lines α) : Except Err (Int × Nat × List (List α) × Line α × Lines α) := do
  let ts ← pyInt (readline ls).1
  let ls := (readline ls).2
  let ls := (readline ls).2
  let n ← pyInt (readline ls).1
  let ls := (readline ls).2
  let ls := (readline ls).2          -- `item = f.readline().split()` : the BOX BOUNDS line, unused
  let bb ← readBoxRows true 2 nd ls
  let ls := bb.2.drop (3 - nd)
  let names := (readline ls).1.drop 2
  let ls := (readline ls).2
  if n < 0 then .error .value        -- np.zeros(particle_number) with a negative count
  else .ok (ts, n.toNat, bb.1, names, ls)

/-- one call `read_lammps_centertype(f, ndim, moltypes)`; `mol t` = `moltypes.get(t)` -/
def readCenter (nd : Nat) (mol : Int → Option Int) : Lines α → Except Err (Option (Frame α × Lines α))
  | [] => .ok none
  | _ :: ls => do
      let h ← auxHeader nd ls
      let ts := h.1; let N := h.2.1; let boxbounds := h.2.2.1; let names := h.2.2.2.1; let ls := h.2.2.2.2
      let lo := col 0 boxbounds
      let hi := col 1 boxbounds
      let boxlength := subList hi lo
      if hasWord "xu" names || hasWord "x" names then do
        let r ← readAtoms nd N (sliceFloats nd) N ls (zeros nd N)
        let conditions := r.1.ptype.map fun t => (mol t).isSome
        let positions := mask conditions r.1.pos
        let ptype := (mask conditions r.1.ptype).map fun t => (mol t).getD 0
        let positions := if hasWord "x" names then positions.map fun row => wrapRow row lo hi boxlength else positions
        .ok (some (⟨ts, ptype.length, ptype, positions, boxlength, boxbounds, none, diag nd boxlength⟩, r.2))
      else if hasWord "xs" names then do
        let r ← readAtoms nd N (scaledNoOrigin nd boxlength) N ls (zeros nd N)
        let conditions := r.1.ptype.map fun t => (mol t).isSome
        let positions := mask conditions r.1.pos
        let ptype := (mask conditions r.1.ptype).map fun t => (mol t).getD 0
        let positions := positions.map fun row => addRow row lo
        .ok (some (⟨ts, ptype.length, ptype, positions, boxlength, boxbounds, none, diag nd boxlength⟩, r.2))
      else
        let z : Arrays α := zeros nd N
        .ok (some (⟨ts, N, z.ptype, z.pos, boxlength, boxbounds, none, diag nd boxlength⟩, ls))

/-- `read_lammps_centertype_wrapper` -/
def readCenterAll (nd : Nat) (mol : Int → Option Int) (ls : Lines α) : Except Err (List (Frame α)) :=
  loopFuel (readCenter nd mol) (ls.length + 1) ls

/-- python list indexing `item[j]` (negative `j` counts from the end) -/
def pyItem (it : Line α) (j : Int) : Except Err (Tok α) := do
  let i ← pyIndex it.length j
  item it i

/-- `[float(item[j]) for j in columns_index]`, `columns_index = [int(i - 1) for i in columnsids]` -/
def colFloats (cols : List Int) (it : Line α) : Except Err (List α) :=
  cols.mapM fun c => do
    let t ← pyItem it (c - 1)
    toFloat t

/-- one call `read_lammps_vector(f, ndim, columnsids)` -/
def readVector (nd : Nat) (cols : List Int) : Lines α → Except Err (Option (Frame α × Lines α))
  | [] => .ok none
  | _ :: ls => do
      let h ← auxHeader nd ls
      let ts := h.1; let N := h.2.1; let boxbounds := h.2.2.1; let ls := h.2.2.2.2
      let boxlength := subList (col 1 boxbounds) (col 0 boxbounds)
      let r ← readAtoms cols.length N (colFloats cols) N ls (zeros cols.length N)
      .ok (some (⟨ts, N, r.1.ptype, r.1.pos, boxlength, boxbounds, none, diag nd boxlength⟩, r.2))

/-- `read_lammps_vector_wrapper`; an empty `columnsids` raises ValueError -/
def readVectorAll (nd : Nat) (cols : List Int) (ls : Lines α) : Except Err (List (Frame α)) :=
  if cols.isEmpty then .error .value else loopFuel (readVector nd cols) (ls.length + 1) ls

/-- the python slice `content[a:b]` -/
def pySlice {β : Type} (l : List β) (a b : Nat) : List β := (l.drop a).take (b - a)

/-- `for item in items: item = item.split(); atom_index = int(item[0]) - 1; results[n, atom_index] = item[ncol]` -/
def addRowLoop (N : Nat) (ncol : Int) : Lines α → List α → Except Err (List α)
  | [], row => .ok row
  | it :: its, row => do
      let t0 ← item it 0
      let id ← toInt t0
      let idx ← pyIndex N (id - 1)
      let t ← pyItem it ncol
      let v ← toFloat t
      addRowLoop N ncol its (row.set idx v)

/-- `read_additions(dumpfile, ncol)`: `content` = `f.readlines()` -/
def readAdditions (ncol : Int) (content : Lines α) : Except Err (List (List α)) := do
  let l3 ← (match content[3]? with | some l => .ok l | none => .error .index : Except Err (Line α))
  let n ← pyInt l3
  if n < 0 then
    -- `len/(n+9)`: zero division for n = -9, otherwise np.zeros with a negative dimension or a negative count
    .error .value
  else
    let N := n.toNat
    let ns := content.length / (N + 9)
    (List.range ns).mapM fun k =>
      addRowLoop N ncol (pySlice content (k * N + (k + 1) * 9) ((k + 1) * (N + 9))) (List.replicate N 0)

/-! ### HOOMD frames -/

/-- a duck-typed `gsd.hoomd` frame: `configuration.{dimensions, box, step}`, `particles.{N, typeid, position}` -/
structure HFrame (α : Type) where
  dims : Int
  box : List α
  step : Int
  N : Nat
  typeid : List Int
  position : List (List α)

/-- `positions.min(axis=0)[j]` / `max` of a non-empty array -/
def colMin (j : Nat) : List (List α) → α
  | [] => 0
  | r :: rs => rs.foldl (fun m x => pmin m (x.getD j 0)) (r.getD j 0)
def colMax (j : Nat) : List (List α) → α
  | [] => 0
  | r :: rs => rs.foldl (fun m x => pmax m (x.getD j 0)) (r.getD j 0)

/-- the snapshot built in the loop body of `read_gsd` / `read_gsd_dcd`; `pos` = what is stored as `positions` -/
def gsdFrame (nd : Nat) (h : HFrame α) (pos : List (List α)) : Except Err (Frame α) :=
  let boxlength := h.box.take nd
  let positions := h.position.map fun r => r.take nd
  if positions.isEmpty then .error .value        -- min of a zero-size array
  else .ok ⟨h.step, h.N, h.typeid.map (· + 1), pos, boxlength,
            (List.range nd).map (fun j => [colMin j positions, colMax j positions]), none, diag nd boxlength⟩

/-- `read_gsd(f, ndim)`: `none` = the Python `None` of a wrong dimension -/
def readGsd (nd : Nat) (f : List (HFrame α)) : Except Err (Option (List (Frame α))) :=
  match f with
  | [] => .error .index
  | h0 :: _ =>
    if h0.dims ≠ (nd : Int) then .ok none
    else do
      let fs ← f.mapM fun h => gsdFrame nd h (h.position.map fun r => r.take nd)
      .ok (some fs)

/-- `read_gsd_dcd(f_gsd, f_dcd, ndim)`; `dcd` = `f_dcd.read()[0]`, shape (frames, atoms, 3) -/
def readGsdDcd (nd : Nat) (f : List (HFrame α)) (dcd : List (List (List α))) : Except Err (Option (List (Frame α))) :=
  match f with
  | [] => .error .index
  | h0 :: _ =>
    if h0.dims ≠ (nd : Int) then .ok none
    else do
      let fs ← f.mapM fun h => gsdFrame nd h []
      if fs.length ≠ dcd.length then .ok none
      else if h0.N ≠ (dcd.headD []).length then .ok none
      else .ok (some (List.zipWith (fun (fr : Frame α) p => { fr with positions := p.map fun r => r.take nd }) fs dcd))

/-! ### LAMMPS log -/

/-- `val.startswith("Step ")` on a line without leading blanks -/
def isStep : Line α → Bool
  | .word w :: _ :: _ => w == "Step"
  | _ => false

/-- `val.startswith("Loop time of ")` -/
def isLoop : Line α → Bool
  | .word a :: .word b :: .word c :: _ :: _ => a == "Loop" && b == "time" && c == "of"
  | _ => false

/-- `[i for i, val in enumerate(data) if p(val)]`, counting from `k` -/
def indicesFrom (p : Line α → Bool) : Nat → Lines α → List Nat
  | _, [] => []
  | k, l :: ls => if p l then k :: indicesFrom p (k + 1) ls else indicesFrom p (k + 1) ls

/-- one table: the header line and the data rows -/
structure Table (α : Type) where
  header : Line α
  rows : Lines α

/-- `pd.read_csv(filename, sep=r"\s+", skiprows=s, nrows=n)` by contract: the first line after the skipped ones is the
header, the next `n` lines are the rows -/
def readCsv (data : Lines α) (s n : Nat) : Table α :=
  ⟨(data.drop s).headD [], ((data.drop s).drop 1).take n⟩

/-- the loop `for i in range(linenum.shape[0]): pd.read_csv(…, skiprows=start[i], nrows=linenum[i])`;
an entry is (`start[i]` if it exists, `end[·]` of `linenum[i] = end[·] - start[·] - 1`, that `start[·]`) -/
def tablesOf (data : Lines α) : List (Option Nat × Int × Nat) → Except Err (List (Table α))
  | [] => .ok []
  | (none, _, _) :: _ => .error .index                 -- start[i] out of bounds
  | (some s, e, s0) :: rest =>
    let n : Int := e - (s0 : Int) - 1
    if n < 0 then .error .value       -- 'nrows' must be an integer >= 0
    else do
      let ts ← tablesOf data rest
      .ok (readCsv data s n.toNat :: ts)

/-- `data[-1].split()[0].isnumeric()` for a non-blank last line -/
def firstNumeric : Line α → Bool
  | .int n :: _ => 0 ≤ n
  | _ => false

/-- numpy broadcasting of `end - start` (1-D arrays) together with the indexing `start[i]` of the loop -/
def pairsOf (start : List Nat) (end_ : List Int) : Except Err (List (Option Nat × Int × Nat)) :=
  if start.length = end_.length then .ok ((start.zip end_).map fun p => (some p.1, p.2, p.1))
  else match start, end_ with
    | _, [e] => .ok (start.map fun s => (some s, e, s))
    | [s], es => .ok ((List.range es.length).map fun i => ((if i = 0 then some s else none), es.getD i 0, s))
    | _, _ => .error .value

/-- `read_lammpslog(filename)`; a line is blank (`"\n"`) iff it has no tokens -/
def readLog (data : Lines α) : Except Err (List (Table α)) :=
  match data.getLast? with
  | none => .error .index
  | some last =>
    let start := indicesFrom isStep 0 data
    let end0 := (indicesFrom isLoop 0 data).map fun (i : Nat) => (i : Int)
    let end_ := if !last.isEmpty && firstNumeric last then end0 ++ [(data.length : Int) - 2] else end0
    do
      let ps ← pairsOf start end_
      tablesOf data ps

end Impl

/-! ## Spec -/
namespace Spec

/-- the value `float()` gives for a token, if any -/
def tokVal : Tok α → Option α
  | .int n => some (n : α)
  | .num x => some x
  | .word _ => none

/-- the numeric values of the columns of one atom line `id type c_0 … c_{nd-1} extras…` -/
def atomVals (nd : Nat) (a : AtomSpec α) : List (Option α) :=
  [some (a.id : α), some (a.type : α)] ++ ((List.range nd).map fun i => some (a.c i)) ++ a.extras.map tokVal

/-- the value in the 1-based column `c` of an atom line -/
def column (nd : Nat) (a : AtomSpec α) (c : Int) : Option α :=
  if 1 ≤ c then ((atomVals nd a)[(c - 1).toNat]?).join else none

/-- the frame a header written by `write_dump_header` describes, once `atoms` lines follow: orthogonal, wrapped
style `x y z`, bounds as printed (`rnd 6`), in 2-D the dummy z bounds `-0.5 0.5`; `addson` are the extra column names -/
def writtenFrame [Div α] [NatCast α] (nd : Nat) (rnd : Nat → α → α) (d : HeaderData α) (atoms : List (AtomSpec α)) :
    FrameSpec α :=
  { timestep := d.timestep, tric := false, style := .x
    lo := fun i => if i < nd then rnd 6 (d.bb i 0) else rnd 6 ((((-1 : Int)) : α) / ((2 : Nat) : α))
    hi := fun i => if i < nd then rnd 6 (d.bb i 1) else rnd 6 ((((1 : Int)) : α) / ((2 : Nat) : α))
    xy := 0, xz := 0, yz := 0
    flags := ["pp", "pp", "pp"], extraNames := d.addson, atoms := atoms }

/-- the LAMMPS data-file header (`Atoms #atomic` section follows), bounds printed with 6 decimals, dummy z bounds
`-0.5 0.5` for a 2-D box -/
def dataHeader [Div α] [NatCast α] (pr : α → Tok α) (rnd : Nat → α → α) (d : HeaderData α) : Lines α :=
  [ [.word "LAMMPS", .word "data", .word "file"],
    [],
    [.int d.nparticle, .word "atoms"],
    [.int d.ntypes, .word "atom", .word "types"],
    [],
    [pr (rnd 6 (d.bb 0 0)), pr (rnd 6 (d.bb 0 1)), .word "xlo", .word "xhi"],
    [pr (rnd 6 (d.bb 1 0)), pr (rnd 6 (d.bb 1 1)), .word "ylo", .word "yhi"],
    (if d.nbb = 3 then [pr (rnd 6 (d.bb 2 0)), pr (rnd 6 (d.bb 2 1)), .word "zlo", .word "zhi"]
     else [pr ((((-1 : Int)) : α) / ((2 : Nat) : α)), pr ((((1 : Int)) : α) / ((2 : Nat) : α)), .word "zlo", .word "zhi"]),
    [],
    [.word "Atoms", .word "#atomic"],
    [] ]

/-- the snapshot a HOOMD frame must be converted to; `pos` = the positions to attach (its own, or the DCD frame's) -/
def hoomd (nd : Nat) (h : Impl.HFrame α) (pos : List (List α)) : Frame α :=
  { timestep := h.step
    nparticle := h.N
    ptype := h.typeid.map (· + 1)
    positions := pos.map fun r => r.take nd
    boxlength := h.box.take nd
    boxbounds := (List.range nd).map fun j =>
      [Impl.colMin j (h.position.map fun r => r.take nd), Impl.colMax j (h.position.map fun r => r.take nd)]
    realbounds := none
    hmatrix := diag nd (h.box.take nd) }

/-- ids (0-based) of the atoms whose type is a key of the type map, in increasing order -/
def centerIds (mol : Int → Option Int) (f : FrameSpec α) : List Nat :=
  (List.range f.atoms.length).filter fun k => (mol (Lammps.Spec.atId f.atoms k (·.type) 0)).isSome

/-- what the molecule-centre reader must return for an orthogonal frame -/
def center (nd : Nat) (mol : Int → Option Int) (f : FrameSpec α) : Frame α :=
  let ids := centerIds mol f
  { timestep := f.timestep
    nparticle := ids.length
    ptype := ids.map fun k => (mol (Lammps.Spec.atId f.atoms k (·.type) 0)).getD 0
    positions := ids.map fun k => Lammps.Spec.atId f.atoms k (fun a => (List.range nd).map (Lammps.Spec.cart nd f a)) (List.replicate nd 0)
    boxlength := (List.range nd).map fun i => f.hi i - f.lo i
    boxbounds := (List.range nd).map fun i => [f.lo i, f.hi i]
    realbounds := none
    hmatrix := (List.range nd).map fun i => (List.range nd).map fun j => if i = j then f.hi i - f.lo i else 0 }

/-- what the column reader must return: `positions[k]` = the requested columns of the line with id `k+1` -/
def vector (nd : Nat) (cols : List Int) (f : FrameSpec α) : Frame α :=
  let N := f.atoms.length
  { timestep := f.timestep
    nparticle := N
    ptype := (List.range N).map fun k => Lammps.Spec.atId f.atoms k (·.type) 0
    positions := (List.range N).map fun k =>
      Lammps.Spec.atId f.atoms k (fun a => cols.map fun c => (column nd a c).getD 0) (List.replicate cols.length 0)
    boxlength := (List.range nd).map fun i => f.hi i - f.lo i
    boxbounds := (List.range nd).map fun i => [f.lo i, f.hi i]
    realbounds := none
    hmatrix := (List.range nd).map fun i => (List.range nd).map fun j => if i = j then f.hi i - f.lo i else 0 }

/-- `read_additions`: row `n` = the 0-based column `ncol` of frame `n` by atom id -/
def additions (nd : Nat) (ncol : Nat) (N : Nat) (fs : List (FrameSpec α)) : List (List α) :=
  fs.map fun f => (List.range N).map fun k => Lammps.Spec.atId f.atoms k (fun a => (column nd a ((ncol : Int) + 1)).getD 0) 0

/-- one thermodynamic section of a log followed by arbitrary other lines -/
structure Section (α : Type) where
  header : Line α
  rows : Lines α
  loop : Line α
  noise : Lines α

def sectionLines (s : Section α) : Lines α := s.header :: (s.rows ++ s.loop :: s.noise)

/-- a log: leading lines, then the sections -/
def emitLog (pre : Lines α) (secs : List (Section α)) : Lines α := pre ++ secs.flatMap sectionLines

def plain (l : Line α) : Prop := Impl.isStep l = false ∧ Impl.isLoop l = false

/-- well-formed section: the header is a `Step …` line, the terminator a `Loop time of …` line, nothing else is -/
structure SectionWF (s : Section α) : Prop where
  header : Impl.isStep s.header = true ∧ Impl.isLoop s.header = false
  loop : Impl.isLoop s.loop = true ∧ Impl.isStep s.loop = false
  rows : ∀ l ∈ s.rows, plain l
  noise : ∀ l ∈ s.noise, plain l

end Spec
end Pms.AuxIo
