import Pms.Model.Prelude
/-!
Model of `PyMatterSim/static/geometric.py::packing_capability_2d` (core only, operation-polymorphic; EXTRA — no listed property is
about it).  Per particle `o` with neighbour row `cnlist`:

    theta_o = 0
    for i, j in combinations(cnlist, 2):
        if (j in i_cnlist) & (i in j_cnlist):            # i and j are neighbours of each other
            u = remove_pbc(r_i − r_o), v = remove_pbc(r_j − r_o);  u /= |u|;  v /= |v|
            theta_o += abs(arccos(u·v) − reference_angles[type_o, type_i, type_j])
    result[o] = theta_o / neighborlist[o, 0]

`reference_angles[o, i, j] = triangle_angle(σ_oi, σ_oj, σ_ij)` (the regenerated `ta_cos` of `utils/geometry.py`, EXTRA).
The minimum-image vectors (`remove_pbc`, C02's model) and the neighbour rows (`read_neighbors`, C05's model) are inputs here:
`disp o i` is the vector from o to i, `nb k` the neighbour ids of particle k as read (row cut to its coordination number).
`arccos`, `sqrt`, `abs` are parameters (Mathlib's real functions in `Props`, `Float` functions in the driver).
-/
namespace Pms.Pack
open Pms

/-- `itertools.combinations(l, 2)`, in its order -/
def pairs : List Nat → List (Nat × Nat)
  | [] => []
  | a :: t => t.map (fun b => (a, b)) ++ pairs t

variable {α : Type} [Add α] [Sub α] [Mul α] [Div α] [OfNat α 0] [NatCast α]

/-- `np.dot(u/|u|, v/|v|)` for 2-D vectors, as the code evaluates it (each vector divided by its own norm first) -/
def cosBetween (sqrt : α → α) (u v : Nat → α) : α :=
  let nu := sqrt (u 0 * u 0 + u 1 * u 1)
  let nv := sqrt (v 0 * v 0 + v 1 * v 1)
  (u 0 / nu) * (v 0 / nv) + (u 1 / nu) * (v 1 / nv)

/-- the `if (j in i_cnlist) & (i in j_cnlist)` test -/
def isMutual (nb : Nat → List Nat) (i j : Nat) : Bool := (nb i).contains j && (nb j).contains i

/-- the term added for the pair (i, j) of neighbours of o (0 when they are not neighbours of each other) -/
def term (arccos sqrt abs : α → α) (disp : Nat → Nat → Nat → α) (nb : Nat → List Nat)
    (ref : Nat → Nat → Nat → α) (typ : Nat → Nat) (o i j : Nat) : α :=
  if isMutual nb i j then abs (arccos (cosBetween sqrt (disp o i) (disp o j)) - ref (typ o) (typ i) (typ j)) else 0

/-- `theta_o` after the loop over `combinations(cnlist, 2)` -/
def thetaSum (arccos sqrt abs : α → α) (disp : Nat → Nat → Nat → α) (nb : Nat → List Nat)
    (ref : Nat → Nat → Nat → α) (typ : Nat → Nat) (o : Nat) : α :=
  (pairs (nb o)).foldl (fun acc p => acc + term arccos sqrt abs disp nb ref typ o p.1 p.2) 0

/-- `results[n, o] = theta_o / neighborlist[o, 0]` -/
def packing (arccos sqrt abs : α → α) (disp : Nat → Nat → Nat → α) (nb : Nat → List Nat) (cn : Nat → Nat)
    (ref : Nat → Nat → Nat → α) (typ : Nat → Nat) (o : Nat) : α :=
  thetaSum arccos sqrt abs disp nb ref typ o / ((cn o : Nat) : α)

end Pms.Pack
