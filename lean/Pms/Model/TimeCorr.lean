import Pms.Model.Prelude
/-!
Model of `PyMatterSim/dynamic/time_corr.py::time_correlation` (C14).

* `Cx α`      — complex numbers as pairs over an arbitrary carrier (core only, so the driver runs exact ℚ).
* `Branch`, `Program` — a small deep embedding of what the six branches of the routine do: which loop nest,
  which operand is conjugated, which frame index each operand reads, which slot of `results` / `counts`
  is updated, whether `counts` is incremented per particle, whether `results /= counts` follows.
  `Pms.Gen.TimeCorr.program : Program` is REGENERATED from the Python source on every run.
* **Impl** = the interpreter below (`Branch.step`, `Branch.loops`, `Branch.raw`, `Program.run`): it mirrors the
  Python loops step for step (`acc[k] += v` is `upd`, `acc[k] = v` is `set`, `for` is `foldRange`).
* **Spec** = `pair`, `specLinear`, `specLog`, `spec`: the definition as the property states it.
-/
namespace Pms.TimeCorr
open Pms

/-- a complex number as a (re, im) pair over `α` -/
structure Cx (α : Type) where
  re : α
  im : α
deriving Inhabited, Repr

namespace Cx
variable {α : Type} [Add α] [Sub α] [Mul α] [Neg α]
/-- complex product -/
def mul (x y : Cx α) : Cx α := ⟨x.re * y.re - x.im * y.im, x.re * y.im + x.im * y.re⟩
/-- complex conjugate (`np.conj`) -/
def conj (x : Cx α) : Cx α := ⟨x.re, -x.im⟩
instance : Add (Cx α) := ⟨fun x y => ⟨x.re + y.re, x.im + y.im⟩⟩
instance [OfNat α 0] : OfNat (Cx α) 0 := ⟨⟨0, 0⟩⟩
end Cx

/-- a series `condition[t, i, a, b]`; scalars use `d1 = d2 = 1`, vectors `d2 = 1` -/
abbrev Series (α : Type) := Nat → Nat → Nat → Nat → Cx α

/-! ## deep embedding of the regenerated fragments -/

/-- frame / slot index expressions that occur in the routine -/
inductive Idx
  | n | nn | nMinusNn | zero
deriving DecidableEq, Repr, Inhabited

def Idx.eval : Idx → Nat → Nat → Nat
  | .n, p, _ => p
  | .nn, _, q => q
  | .nMinusNn, p, q => p - q
  | .zero, _, _ => 0

/-- one factor of the product: `condition[frame]` or `np.conj(condition[frame])` -/
structure Operand where
  conj : Bool
  frame : Idx
deriving DecidableEq, Repr, Inhabited

/-- how the product is reduced to a real number -/
inductive Kind
  /-- `(X * Y).sum().real` : element-wise product summed over particles and components -/
  | sumAll
  /-- `for i in range(nparticle): … np.trace(np.matmul(X[i], Y[i]))` stored into a float array -/
  | tracePerParticle
deriving DecidableEq, Repr, Inhabited

structure Branch where
  /-- value tested against `len(condition.shape)` -/
  shapeLen : Nat
  /-- the branch is taken when the detection expression is true -/
  whenEven : Bool
  /-- loop nest `for n in range(T): for nn in range(n + innerExtra)`; otherwise one value per `n` -/
  double : Bool
  innerExtra : Nat
  kind : Kind
  /-- `results[slot] = …` (true) or `results[slot] += …` (false) -/
  assign : Bool
  slot : Idx
  lhs : Operand
  rhs : Operand
  /-- a statement `counts[countSlot] += 1` accompanies the accumulation -/
  counted : Bool
  countSlot : Idx
  /-- … and sits inside the particle loop -/
  countPerParticle : Bool
  /-- `results /= counts` follows the loop nest -/
  divCounts : Bool
deriving DecidableEq, Repr, Inhabited

inductive Cmp
  | eq | ne | le | lt | ge | gt
deriving DecidableEq, Repr, Inhabited

def Cmp.eval : Cmp → Nat → Nat → Bool
  | .eq, a, b => a == b
  | .ne, a, b => a != b
  | .le, a, b => decide (a ≤ b)
  | .lt, a, b => decide (a < b)
  | .ge, a, b => decide (b ≤ a)
  | .gt, a, b => decide (b < a)

/-- `len(set(np.diff(timesteps))) <cmp> <rhs>` -/
structure Detect where
  cmp : Cmp
  rhs : Nat
deriving DecidableEq, Repr, Inhabited

structure Program where
  detect : Detect
  /-- the `if / elif` chain, flattened in source order -/
  branches : List Branch
  /-- `results /= results[normIndex]` -/
  normIndex : Nat
deriving Repr, Inhabited

/-! ## Impl: interpreter -/
section impl
variable {α : Type} [Add α] [Sub α] [Mul α] [Div α] [Neg α] [OfNat α 0] [OfNat α 1]

def Operand.get (o : Operand) (A : Series α) (n nn : Nat) : Nat → Nat → Nat → Cx α :=
  fun i a b => if o.conj then (A (o.frame.eval n nn) i a b).conj else A (o.frame.eval n nn) i a b

/-- `(X * Y).sum().real` -/
def sumAllReal (N d1 d2 : Nat) (X Y : Nat → Nat → Nat → Cx α) : α :=
  (sumRange N fun i => sumRange d1 fun a => sumRange d2 fun b => Cx.mul (X i a b) (Y i a b)).re

/-- `np.trace(np.matmul(X[i], Y[i]))` stored into a float slot (the real part is kept) -/
def traceReal (d1 d2 : Nat) (X Y : Nat → Nat → Nat → Cx α) (i : Nat) : α :=
  (sumRange d1 fun a => sumRange d2 fun b => Cx.mul (X i a b) (Y i b a)).re

def put (assign : Bool) (acc : Nat → α) (k : Nat) (v : α) : Nat → α :=
  if assign then set acc k v else upd acc k v

/-- the innermost statement(s) on `results` for loop indices (n, nn) -/
def Branch.step (b : Branch) (N d1 d2 : Nat) (A : Series α) (n nn : Nat) (acc : Nat → α) : Nat → α :=
  let X := b.lhs.get A n nn
  let Y := b.rhs.get A n nn
  let k := b.slot.eval n nn
  match b.kind with
  | .sumAll => put b.assign acc k (sumAllReal N d1 d2 X Y)
  | .tracePerParticle => foldRange N (fun acc i => put b.assign acc k (traceReal d1 d2 X Y i)) acc

/-- the innermost statement on `counts` for loop indices (n, nn) -/
def Branch.countStep (b : Branch) (N : Nat) (n nn : Nat) (cnt : Nat → α) : Nat → α :=
  if b.counted then
    (if b.countPerParticle then foldRange N (fun c _ => upd c (b.countSlot.eval n nn) 1) cnt
     else upd cnt (b.countSlot.eval n nn) 1)
  else cnt

/-- the loop nest, starting from `np.zeros` -/
def Branch.loops (b : Branch) (T : Nat) (body : Nat → Nat → (Nat → α) → (Nat → α)) : Nat → α :=
  if b.double then
    foldRange T (fun acc n => foldRange (n + b.innerExtra) (fun acc nn => body n nn acc) acc) (fun _ => 0)
  else
    foldRange T (fun acc n => body n 0 acc) (fun _ => 0)

/-- `results` when the branch is left (before `results /= results[0]`) -/
def Branch.raw (b : Branch) (T N d1 d2 : Nat) (A : Series α) : Nat → α :=
  let res := b.loops T (b.step N d1 d2 A)
  if b.divCounts then
    let cnt := b.loops (α := α) T (b.countStep N)
    fun k => res k / cnt k
  else res

/-- the `time_corr` column -/
def Branch.final (b : Branch) (normIndex : Nat) (T N d1 d2 : Nat) (A : Series α) : Nat → α :=
  let r := b.raw T N d1 d2 A
  fun k => r k / r normIndex

/-- `np.diff(timesteps)` -/
def diffs (ts : Nat → α) (T : Nat) : List α := (List.range (T - 1)).map fun i => ts (i + 1) - ts i

/-- `set(…)` as a duplicate-free list -/
def distinct [DecidableEq α] : List α → List α
  | [] => []
  | x :: xs => if x ∈ distinct xs then distinct xs else x :: distinct xs

def Detect.eval [DecidableEq α] (d : Detect) (ts : Nat → α) (T : Nat) : Bool :=
  d.cmp.eval (distinct (diffs ts T)).length d.rhs

/-- first branch of the `if / elif` chain whose tests succeed (`none` = `raise ValueError`) -/
def Program.select (p : Program) (shapeLen : Nat) (even : Bool) : Option Branch :=
  p.branches.find? fun b => b.shapeLen == shapeLen && b.whenEven == even

/-- the whole routine: `time_corr` column for a condition array with `len(shape) = shapeLen` -/
def Program.run [DecidableEq α] (p : Program) (ts : Nat → α) (T shapeLen N d1 d2 : Nat) (A : Series α) :
    Option (Nat → α) :=
  (p.select shapeLen (p.detect.eval ts T)).map fun b => b.final p.normIndex T N d1 d2 A

end impl

/-! ## Spec -/
section spec
variable {α : Type} [Add α] [Sub α] [Mul α] [Div α] [Neg α] [OfNat α 0] [NatCast α]

/-- real part of the particle-summed product of the value at frame `n` (later) with the conjugate of the
value at frame `m` (earlier).  Scalars and vectors: component-wise product; tensors (`shapeLen = 4`):
matrix product, traced, i.e. Σ_ab A_n[a,b] · conj(A_m[b,a]). -/
def pair (shapeLen N d1 d2 : Nat) (A : Series α) (n m : Nat) : α :=
  (sumRange N fun i => sumRange d1 fun a => sumRange d2 fun b =>
    Cx.mul (A n i a b) (Cx.conj (if shapeLen = 4 then A m i b a else A m i a b))).re

/-- mean over all origins `t` with `t + k < T` -/
def specLinear (shapeLen T N d1 d2 : Nat) (A : Series α) (k : Nat) : α :=
  (sumRange (T - k) fun t => pair shapeLen N d1 d2 A (t + k) t) / ((T - k : Nat) : α)

/-- first frame as the only origin -/
def specLog (shapeLen N d1 d2 : Nat) (A : Series α) (k : Nat) : α := pair shapeLen N d1 d2 A k 0

/-- the property: evenly spaced → origin average ÷ its lag-0 value; otherwise single origin ÷ its lag-0 value -/
def spec (even : Bool) (shapeLen T N d1 d2 : Nat) (A : Series α) (k : Nat) : α :=
  if even then specLinear shapeLen T N d1 d2 A k / specLinear shapeLen T N d1 d2 A 0
  else specLog shapeLen N d1 d2 A k / specLog shapeLen N d1 d2 A 0

/-- the time axis: frame time relative to the first frame, times the time step -/
def specTime (ts : Nat → α) (dt : α) (k : Nat) : α := (ts k - ts 0) * dt

/-- the lag-0 sum of the Spec: Σ over all origins (evenly spaced) resp. the first frame only -/
def lag0 (even : Bool) (shapeLen T N d1 d2 : Nat) (A : Series α) : α :=
  if even then sumRange T fun t => pair shapeLen N d1 d2 A t t else pair shapeLen N d1 d2 A 0 0

/-- all consecutive differences equal (vacuous for T ≤ 1; for T ≥ 2 equal to the first) -/
def Evenly (ts : Nat → α) (T : Nat) : Prop := ∀ i, i + 1 < T → ts (i + 1) - ts i = ts 1 - ts 0

def evenlyB [DecidableEq α] (ts : Nat → α) (T : Nat) : Bool :=
  (List.range (T - 1)).all fun i => decide (ts (i + 1) - ts i = ts 1 - ts 0)

end spec

end Pms.TimeCorr
