import Pms.Model.Wave
/-!
Models of the other three routines of `PyMatterSim/utils/wavevector.py` (core only): `wavevector3d`, `wavevector2d`
(rows `[d, a, b(, c)]` of non-negative integer vectors whose squared norm `d` is one of the squares `0², …, (numofq−1)²`, the first
appended row — the zero vector — cut off through the ravelled array, sorted by `d`) and `continuousvector` (every non-zero integer
vector with components in `[−nhalf, nhalf)`).  Loop nests, the appended row, the cut, the reshape width and the sort column are
DATA regenerated from the source (`Pms.Gen.WaveX`); this file interprets them.

numpy contracts: `d in np.square(np.arange(n))` ⇔ ∃ k < n, k² = d;  `np.ravel(np.array(rows))[k:].reshape((-1, w))` is the
row-major flattening, without its first k entries, cut into rows of w (an error when the rest is not a multiple of w);
`argsort` (quicksort, not stable) returns SOME permutation that sorts the key column — the model's instance is a stable merge
sort, and the correspondence compares the sorted key column and the rows as a multiset.
-/
namespace Pms.WaveX
open Pms.Wave

structure SqTable where
  name : String
  nvars : Nat
  squares : List Nat
  row : List (Option Nat)
  drop : Nat
  width : Nat
  sortCol : Nat
deriving DecidableEq, Repr, Inhabited

structure CBranch where
  ndim : Nat
  loops : List (Bnd × Bnd)
  row : List Nat
deriving DecidableEq, Repr, Inhabited

/-- `d in np.square(np.arange(n))` -/
def inSquares (n : Nat) (d : Int) : Bool := (List.range n).any fun k => ((k : Int) * (k : Int)) == d

def sumSq (idx : List Nat) (t : List Int) : Int := idx.foldl (fun acc j => acc + t.getD j 0 * t.getD j 0) 0

/-- the loop nest of depth k, every loop `range(numofq)`: outermost variable first, visiting order -/
def nest (n : Nat) (k : Nat) : List (List Int) := tuples (n : Int) (List.replicate k (Bnd.zero, Bnd.pos))

def SqTable.rowOf (T : SqTable) (t : List Int) : List Int :=
  T.row.map fun
    | none => sumSq T.squares t
    | some j => t.getD j 0

/-- the list `wavevector` after the loop nest -/
def SqTable.appended (T : SqTable) (n : Nat) : List (List Int) :=
  ((nest n T.nvars).filter fun t => inSquares n (sumSq T.squares t)).map T.rowOf

/-- cut a flat list into rows of w; `none` when the length is not a multiple of w (numpy raises) -/
def chunks (w : Nat) : Nat → List Int → Option (List (List Int))
  | 0, l => if l.isEmpty then some [] else none
  | fuel + 1, l =>
    if l.isEmpty then some []
    else if w = 0 ∨ l.length < w then none
    else (chunks w fuel (l.drop w)).map (l.take w :: ·)

def keyLE (c : Nat) (r s : List Int) : Bool := decide (r.getD c 0 ≤ s.getD c 0)

/-- the whole routine; `none` = numpy raises in the reshape -/
def SqTable.run (T : SqTable) (n : Nat) : Option (List (List Int)) :=
  let flat := ((T.appended n).flatten).drop T.drop
  (chunks T.width flat.length flat).map fun rows => rows.mergeSort (keyLE T.sortCol)

/-- Spec: the non-zero tuples that pass the test, as rows, sorted by the key column (stable) -/
def SqTable.spec (T : SqTable) (n : Nat) : List (List Int) :=
  ((((nest n T.nvars).filter fun t => inSquares n (sumSq T.squares t) && !isZero t)).map T.rowOf).mergeSort (keyLE T.sortCol)

/-! ### continuousvector -/

def zeros (d : Nat) : List Int := List.replicate d 0

/-- rows written by the loop nest of the block for dimension d (none: no block, nothing is written) -/
def written (bs : List CBranch) (d : Nat) (h : Int) : List (List Int) :=
  match bs.find? (fun b => b.ndim == d) with
  | none => []
  | some b => (tuples h b.loops).map fun t => b.row.map fun j => t.getD j 0

/-- Impl: the over-allocated zero array of `numofq ** ndim` rows, the first rows overwritten in visiting order (an IndexError when
more rows are written than were allocated), zero rows removed, then the `onlypositive` filter -/
def contImpl (bs : List CBranch) (d numofq : Nat) (pos : Bool) : Option (List (List Int)) :=
  let h : Int := ((numofq / 2 : Nat) : Int)
  let w := written bs d h
  let alloc := numofq ^ d
  if w.length > alloc then none
  else
    let arr := w ++ List.replicate (alloc - w.length) (zeros d)
    let rows := arr.filter fun v => !isZero v
    some (if pos then rows.filter fun v => v.all (fun x => decide (x ≥ 0)) else rows)

/-- Spec: the written rows that are not zero (and have no negative component when `onlypositive`) -/
def contSpec (bs : List CBranch) (d numofq : Nat) (pos : Bool) : List (List Int) :=
  let h : Int := ((numofq / 2 : Nat) : Int)
  let rows := (written bs d h).filter fun v => !isZero v
  if pos then rows.filter fun v => v.all (fun x => decide (x ≥ 0)) else rows

end Pms.WaveX
