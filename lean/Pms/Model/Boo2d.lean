import Pms.Model.Pbc
/-!
Model of `PyMatterSim/static/boo.py::boo_2d` (core Lean only, operation-polymorphic).

Two number types: `α` (reals: coordinates, weights, moduli) and `β` (complex numbers).
They are instantiated as `ℝ`/`ℂ` in the theorems and as `Rat`/`Float`/`Cx Float` in the driver.

* `psi`, `psiW`, `bonds`, `phi`, `phiW`  — `lthorder` (L527-552)
* `window`, `timeAvg`, `timeAvgSep`      — `time_average` (L560-616) on top of
                                           `utils.coarse_graining.time_average`
* `tcorrNum`, `tcorr`                    — `time_corr` (L649-672) = `dynamic.time_corr.time_correlation`
* `binOf`, `scorrFrame`, `scorr`         — `spatial_corr` (L618-647) = Σ_frames `conditional_gr`/nframes

The map `E dx dy` stands for `np.exp(1j * l * np.arctan2(dy, dx))`; `unitPow` is the same
thing written without trigonometry, `((dx + i dy)/|d|)^l` (theorem `C10_atan2_form`).
-/
namespace Pms.Boo2d
open Pms

/-- complex numbers as pairs (executable instance of `β`) -/
structure Cx (α : Type) where
  re : α
  im : α
deriving Inhabited

namespace Cx
variable {α : Type} [Add α] [Sub α] [Mul α] [Div α]
instance : Add (Cx α) := ⟨fun a b => ⟨a.re + b.re, a.im + b.im⟩⟩
instance : Mul (Cx α) := ⟨fun a b => ⟨a.re * b.re - a.im * b.im, a.re * b.im + a.im * b.re⟩⟩
instance : Div (Cx α) := ⟨fun a b =>
  let n := b.re * b.re + b.im * b.im
  ⟨(a.re * b.re + a.im * b.im) / n, (a.im * b.re - a.re * b.im) / n⟩⟩
instance [OfNat α 0] : OfNat (Cx α) 0 := ⟨⟨0, 0⟩⟩
instance [OfNat α 0] [OfNat α 1] : OfNat (Cx α) 1 := ⟨⟨1, 0⟩⟩
instance [OfNat α 0] [NatCast α] : NatCast (Cx α) := ⟨fun n => ⟨(n : α), 0⟩⟩
end Cx

section lthorder
variable {α β : Type}

/-- `z^n` by repeated multiplication -/
def cpow [Mul β] [OfNat β 1] (z : β) : Nat → β
  | 0 => 1
  | n+1 => cpow z n * z

variable [Add α] [Sub α] [Mul α] [Div α] [OfNat α 0] [IntCast α]
variable [Add β] [Mul β] [Div β] [OfNat β 0] [OfNat β 1] [NatCast β]

/-- `((dx + i dy)/sqrt(dx²+dy²))^l` — the trigonometry-free form of `exp(i l atan2(dy,dx))` -/
def unitPow (sqrt : α → α) (mk : α → α → β) (l : Nat) (dx dy : α) : β :=
  let r := sqrt (dx * dx + dy * dy)
  cpow (mk (dx / r) (dy / r)) l

/-- L536-537: `results[n,i] = np.exp(1j*l*theta).mean()` over the `cn` bonds `d m = (dx, dy)` -/
def psi (E : α → α → β) (cn : Nat) (d : Nat → Nat → α) : β :=
  (sumRange cn fun m => E (d m 0) (d m 1)) / (cn : β)

/-- L549-552: `weights /= np.abs(weights).sum(); (weights * np.exp(1j*l*theta)).sum()` -/
def psiW (E : α → α → β) (ofR : α → β) (abs : α → α) (cn : Nat) (d : Nat → Nat → α) (w : Nat → α) : β :=
  let s := sumRange cn fun m => abs (w m)
  sumRange cn fun m => ofR (w m / s) * E (d m 0) (d m 1)

/-- L532-535: `RIJ = remove_pbc(positions[cnlist] - positions[i], hmatrix, ppp)`;
`nl i 0` is the coordination number, `nl i (m+1)` the m-th neighbour (0-based ids) -/
def bonds (rint : α → Int) (H Hinv : Nat → Nat → α) (ppp : Nat → α) (pos : Nat → Nat → α)
    (nl : Nat → Nat → Nat) (i : Nat) : Nat → Nat → α :=
  fun m => Pbc.removePbc 2 rint H Hinv ppp (fun k => pos (nl i (m+1)) k - pos i k)

/-- `ParticlePhi[n, i]` without weights -/
def phi (E : α → α → β) (rint : α → Int) (H Hinv : Nat → Nat → α) (ppp : Nat → α)
    (pos : Nat → Nat → α) (nl : Nat → Nat → Nat) (i : Nat) : β :=
  psi E (nl i 0) (bonds rint H Hinv ppp pos nl i)

/-- `ParticlePhi[n, i]` with a weights table `wl` laid out like `nl` (column 0 = cn) -/
def phiW (E : α → α → β) (ofR : α → β) (abs : α → α) (rint : α → Int) (H Hinv : Nat → Nat → α)
    (ppp : Nat → α) (pos : Nat → Nat → α) (nl : Nat → Nat → Nat) (wl : Nat → Nat → α) (i : Nat) : β :=
  psiW E ofR abs (nl i 0) (bonds rint H Hinv ppp pos nl i) (fun m => wl i (m+1))

end lthorder

section timeavg
variable {β : Type} [Add β] [Div β] [OfNat β 0] [NatCast β]

/-- `input_property[n:n+W].mean(axis=0)` for particle `i` -/
def timeAvg (W : Nat) (x : Nat → Nat → β) (n i : Nat) : β :=
  (sumRange W fun k => x (n + k) i) / (W : β)

/-- `time_nsnapshot = int(time_period / ((step[1]-step[0]) * dt))` (utils.coarse_graining.time_average);
`floor` stands for Python's `int()` on a positive float -/
def window {α : Type} [Mul α] [Div α] (floor : α → Int) (period dt dstep : α) : Nat :=
  (floor (period / (dstep * dt))).toNat

/-- `maxbin = int(boxlength.min() / 2.0 / rdelta)` (conditional_gr); `two` is 2.0 -/
def maxbinOf {α : Type} [Div α] (floor : α → Int) (two lmin rdelta : α) : Nat :=
  (floor (lmin / two / rdelta)).toNat

/-- number of averaged frames: `nsnapshots - W` -/
def nAvg (T W : Nat) : Nat := T - W

variable {α : Type} [Add α] [Div α] [OfNat α 0] [NatCast α] [Mul β]
/-- `average_complex=False`: `mean(|φ|) * exp(1j * mean(angle φ))`;
`polar r θ` stands for `r * np.exp(1j*θ)` -/
def timeAvgSep (abs arg : β → α) (polar : α → α → β) (W : Nat) (x : Nat → Nat → β) (n i : Nat) : β :=
  polar ((sumRange W fun k => abs (x (n + k) i)) / (W : α))
        ((sumRange W fun k => arg (x (n + k) i)) / (W : α))

end timeavg

section tcorr
variable {α β : Type} [Add α] [Div α] [OfNat α 0] [NatCast α] [Mul β] [Add β] [OfNat β 0]

/-- `(condition[n] * np.conj(condition[n-nn])).sum().real` -/
def dotRe (re : β → α) (conj : β → β) (N : Nat) (x : Nat → Nat → β) (n m : Nat) : α :=
  re (sumRange N fun i => x n i * conj (x m i))

/-- the double loop of `time_correlation` (linear dump): accumulators `results`, `counts` -/
def tcorrAcc (re : β → α) (conj : β → β) (T N : Nat) (x : Nat → Nat → β) : Nat → α :=
  originLoop T (fun n nn => dotRe re conj N x n (n - nn)) (fun _ => 0)

def tcorrCnt (T : Nat) : Nat → Nat :=
  originLoop T (fun _ _ => 1) (fun _ => 0)

/-- `results /= counts; results /= results[0]` -/
def tcorr (re : β → α) (conj : β → β) (T N : Nat) (x : Nat → Nat → β) (k : Nat) : α :=
  (tcorrAcc re conj T N x k / ((tcorrCnt T k : Nat) : α)) /
    (tcorrAcc re conj T N x 0 / ((tcorrCnt T 0 : Nat) : α))

end tcorr

section scorr
variable {α : Type} [Add α] [Sub α] [Mul α] [Div α] [OfNat α 0] [NatCast α] [IntCast α]

/-- squared length of a 2-vector -/
def norm2 (v : Nat → α) : α := v 0 * v 0 + v 1 * v 1

/-- minimum-image pair vector of `conditional_gr`: `remove_pbc(positions[j] - positions[i])` -/
def pairVec (rint : α → Int) (H Hinv : Nat → Nat → α) (ppp : Nat → α) (pos : Nat → Nat → α)
    (i j : Nat) : Nat → α :=
  Pbc.removePbc 2 rint H Hinv ppp (fun k => pos j k - pos i k)

variable [LT α] [DecidableLT α] [LE α] [DecidableLE α]

/-- does squared distance `d2` fall into histogram bin `b` of `np.histogram(bins=maxbin,
range=(0, maxbin*rdelta))` — bins are `[b δ, (b+1) δ)`, the last one closed -/
def inBin (maxbin : Nat) (rdelta d2 : α) (b : Nat) : Bool :=
  let lo := (b : α) * rdelta
  let hi := ((b + 1 : Nat) : α) * rdelta
  decide (lo * lo ≤ d2) && (decide (d2 < hi * hi) || (b + 1 == maxbin && decide (d2 ≤ hi * hi)))

variable {γ : Type} [Add γ] [Sub γ] [Mul γ] [Div γ] [OfNat γ 0] [NatCast γ]

/-- un-normalised `gA` / `gr` histogram of one frame: Σ_{i<j, bin(i,j)=b} s i j
(`s i j = Re(φ_j conj φ_i)` for gA, `1` for gr) -/
def pairHist (N : Nat) (bin : Nat → Nat → Nat → Bool) (s : Nat → Nat → γ) (b : Nat) : γ :=
  pairLoop N fun i j => if bin i j b then s i j else 0

/-- normalisation of `conditional_gr` for 2D (`nidealfac(2) = 1`):
`h * 2 / N / (π (r_{b+1}² − r_b²) · N / (Lx·Ly))`; `piv` is π -/
def grNorm (piv rdelta vol : γ) (N : Nat) (h : γ) (b : Nat) : γ :=
  let lo := (b : γ) * rdelta
  let hi := ((b + 1 : Nat) : γ) * rdelta
  h * ((2 : Nat) : γ) / (N : γ) / (piv * (hi * hi - lo * lo) * ((N : γ) / vol))

/-- frame average `glresults /= nsnapshots` -/
def frameMean (T : Nat) (f : Nat → γ) : γ := (sumRange T f) / (T : γ)

end scorr

end Pms.Boo2d
