-- DRIVER: cgr Pms.Cond.handleCgr
-- DRIVER: csq Pms.Cond.handleCsq
import Pms.Model.Cond
import Pms.Model.Io
import Pms.Model.GrDriver
import Pms.Model.SqDriver
import Pms.Gen.Cond
/-! Driver operations for C13.  `cgr`: `Impl.condGr` (with the REGENERATED `Pms.Gen.Cond.grSrc`) and `Spec` in exact ℚ,
with the decision margins.  `csq`: `Impl.condSq` (with the regenerated `sqBranches`) and `Spec` in `Float`. -/
namespace Pms.Cond
open Pms Pms.Io

def parseKind (s : String) : Option Spec.Kind :=
  if s = "bool" then some .bool else if s = "real" then some .real else if s = "complex" then some .complex
  else if s = "vector" then some .vector else if s = "tensor" then some .tensor else none

/-- `-` = None, `~` = the empty string, anything else = that string -/
def parseCtype (s : String) : Option String := if s = "-" then none else if s = "~" then some "" else some s

def showCol (name : String) (vs : List Rat) : String := name ++ " " ++ joinRat vs

/-- `cgr d N ppp[d] box[d] rdelta H[d*d] pos[N*d] kind dtype ctype rank m vals[N*m*2]`
 → `margin mbMargin maxbin specMaxbin normFlag ; r … ; gr … ; gA … [; gA_norm …] | r … ; gr … ; gA … [; gA_norm …] ; tot … [; part …]`
 (Impl | Spec; `tot` = C03 `Spec.gTotalOf`, `part` = C03 `Spec.gOf 1 1` with the selected particles as species 1);
 Impl part is `raise` when the regenerated loop chain rejects `conditiontype` -/
def handleCgr (toks : List String) : Option String := do
  let (hd, rest) ← takeMap parseNatDigits 2 toks
  let d := hd.getD 0 0; let N := hd.getD 1 0
  if d = 0 ∨ d > 3 ∨ N < 2 then none
  let (ps, rest) ← takeMap parseRat d rest
  let (bs, rest) ← takeMap parseRat d rest
  let (dl, rest) ← takeMap parseRat 1 rest
  let δ := dl.headD 0
  if δ ≤ 0 then none
  let (hs, rest) ← takeMap parseRat (d * d) rest
  let (xs, rest) ← takeMap parseRat (N * d) rest
  match rest with
  | kindTok :: dtTok :: ctTok :: rest =>
    let kind ← parseKind kindTok
    let dt ← DType.ofName dtTok
    let ct := parseCtype ctTok
    let (rm, rest) ← takeMap parseNatDigits 2 rest
    let rank := rm.getD 0 0; let m := rm.getD 1 0
    let (vs, rest) ← takeMap parseRat (N * m * 2) rest
    if !rest.isEmpty then none
    let hA := hs.toArray; let xA := xs.toArray; let vA := vs.toArray
    let H : Nat → Nat → Rat := fun i j => hA.getD (i * d + j) 0
    let inv := Pbc.inverse d H
    let iA : Array Rat := Array.ofFn (n := d * d) fun q => inv (q.val / d) (q.val % d)
    let A : Nat → Nat → Sq.Cx Rat := fun i c => ⟨vA.getD ((i * m + c) * 2) 0, vA.getD ((i * m + c) * 2 + 1) 0⟩
    let sel : Nat → Bool := fun i => decide (vA.getD (i * m * 2) 0 ≠ 0)
    let fr : Gr.Frame Rat := { pos := fun i k => xA.getD (i * d + k) 0, typ := fun i => if sel i then 1 else 2, H := H,
                               Hinv := fun i j => iA.getD (i * d + j) 0 }
    let pA := ps.toArray; let bA := bs.toArray
    let nsel := Spec.count N sel
    let tr0 : Gr.Traj Rat := { d := d, N := N, T := 1, frame := fun _ => fr, ppp := fun i => pA.getD i 0, box := fun i => bA.getD i 0,
                               rdelta := δ, maxbin := 0, pi := Gr.piRat, typecount := fun i => if i = 0 then nsel else N - nsel }
    let S := Pms.Gen.Cond.grSrc
    let x := Impl.maxbinArg S tr0
    if x < 0 then none
    let fl := x.floor
    let maxbin := fl.toNat
    let mbMargin := let a := x - (fl : Rat); let b := (fl : Rat) + 1 - x; if a < b then a else b
    let tr : Gr.Traj Rat := { tr0 with maxbin := maxbin }
    let tab : Array (Array Rat) := Array.ofFn (n := N) fun i => Array.ofFn (n := N) fun j => Gr.dist2 ratRint tr 0 i.val j.val
    let d2 : Nat → Nat → Nat → Rat := fun _ i j => (tab.getD i #[]).getD j 0
    let binTab : Array (Array Nat) := Array.ofFn (n := N) fun i => Array.ofFn (n := N) fun j =>
      ((List.range maxbin).find? fun k => Gr.binOf tr d2 0 i.val j.val k).getD maxbin
    let bin : Nat → Nat → Nat → Nat → Bool := fun _ i j k => (binTab.getD i #[]).getD j maxbin == k
    let mut margin : Rat := 1
    for i in List.range N do
      for j in List.range N do
        if i < j then
          let fc := Pbc.frac d fr.Hinv (fun k => fr.pos j k - fr.pos i k)
          for k in List.range d do
            if tr.ppp k ≠ 0 then
              let mg := Pbc.tieMargin (fc k)
              if mg < margin then margin := mg
          let em := Gr.edgeMargin δ maxbin (d2 0 i j)
          if em < margin then margin := em
    let inp : Input Rat := { dtype := dt, rank := rank, m := m, sel := sel, A := A }
    let ks := List.range maxbin
    let rows := ks.map fun k => Impl.condGr S tr bin inp ct k
    let p := S.prep.eval dt rank ct
    let implTxt :=
      if rows.any (·.isNone) ∨ (selectLoop S.loops ct).isNone then "raise" else
        let rs := rows.filterMap id
        let base := [showCol "r" (rs.map (·.1)), showCol "gr" (rs.map (·.2.1)), showCol "gA" (rs.map (·.2.2.1))]
        let extra := if p.norm then [showCol "gA_norm" (rs.map fun r => (r.2.2.2).getD 0)] else []
        " ; ".intercalate (base ++ extra)
    let n := if kind = .bool then nsel else N
    let specBase := [showCol "r" (ks.map fun k => Gr.Spec.r tr k), showCol "gr" (ks.map fun k => Gr.Spec.gTotalOf tr bin k),
                     showCol "gA" (ks.map fun k => Spec.gA tr bin kind n m A k)]
    let specNorm := if kind = .real then [showCol "gA_norm" (ks.map fun k => Spec.gAnorm tr bin A k)] else []
    let specTot := [showCol "tot" (ks.map fun k => Gr.Spec.gTotalOf tr bin k)]
    let specPart := if kind = .bool then [showCol "part" (ks.map fun k => Gr.Spec.gOf tr bin 1 1 k)] else []
    let specMb := (Gr.Spec.maxbinArg tr).floor.toNat
    let head := s!"{showRat margin} {showRat mbMargin} {maxbin} {specMb} {if p.norm then 1 else 0}"
    pure (head ++ " ; " ++ implTxt ++ " | " ++ " ; ".intercalate (specBase ++ specNorm ++ specTot ++ specPart))
  | _ => none

/-- `csq d N L[d] pos[N*d] nq n[nq*d] kind dtype rank m vals[N*m*2]`
 → `mKey nq (q impl spec tot part)×nq ngroup (q implMean specMean)×ngroup`  (floats as raw bits; `impl` = `raise` … never:
 the regenerated chain ends in an `else`; if it does not, the whole answer is `raise`).
 `tot` = C04 `Spec.Stot`, `part` = C04 `Spec.S 1 1` with the selected particles as species 1. -/
def handleCsq (toks : List String) : Option String := do
  let (hd, rest) ← takeMap parseNatDigits 2 toks
  let d := hd.getD 0 0; let N := hd.getD 1 0
  if d = 0 ∨ d > 3 ∨ N = 0 then none
  let (Ls, rest) ← takeMap parseRat d rest
  let (ps, rest) ← takeMap parseRat (N * d) rest
  let (nql, rest) ← takeMap parseNatDigits 1 rest
  let nq := nql.headD 0
  let (ns, rest) ← takeMap parseInt (nq * d) rest
  match rest with
  | kindTok :: dtTok :: rest =>
    let kind ← parseKind kindTok
    let dt ← DType.ofName dtTok
    let (rm, rest) ← takeMap parseNatDigits 2 rest
    let rank := rm.getD 0 0; let m := rm.getD 1 0
    let (vs, rest) ← takeMap parseRat (N * m * 2) rest
    if !rest.isEmpty then none
    let LA := Ls.toArray
    let L : Nat → Rat := fun j => LA.getD j 1
    let posA : Array Float := (ps.map ratToFloat).toArray
    let pos : Nat → Nat → Float := fun i j => posA.getD (i * d + j) 0.0
    let nA := ns.toArray
    let nvec : Nat → Nat → Int := fun k j => nA.getD (k * d + j) 0
    let vR := vs.toArray
    let vF : Array Float := (vs.map ratToFloat).toArray
    let A : Nat → Nat → Sq.Cx Float := fun i c => ⟨vF.getD ((i * m + c) * 2) 0.0, vF.getD ((i * m + c) * 2 + 1) 0.0⟩
    let sel : Nat → Bool := fun i => decide (vR.getD (i * m * 2) 0 ≠ 0)
    -- exact grouping key |n/L|²
    let keyA : Array Rat := Sq.tabArr nq fun k => (List.range d).foldl (fun s j => s + ((nvec k j : Int) : Rat) / L j * (((nvec k j : Int) : Rat) / L j)) (0 : Rat)
    let key : Nat → Rat := fun k => keyA.getD k 0
    let keys := Sq.distinctKeys nq key
    let rec gaps : List Rat → Rat → Rat
      | a :: b :: t, mm => gaps (b :: t) (Sq.minRat mm ((b - a) * (b - a) / (2 * (a + b))))
      | _, mm => mm
    let mKey0 := gaps keys 1
    let sameAbs := (List.range nq).all fun k =>
      match (List.range nq).find? (fun k0 => key k0 == key k) with
      | some k0 => (List.range d).all fun j => (nvec k0 j).natAbs == (nvec k j).natAbs
      | none => true
    let mKey := if sameAbs then mKey0 else 0
    -- phases
    let twopidl := fun j => (2 : Float) * (3.141592653589793 : Float) / ratToFloat (L j)
    let qvA : Array Float := Sq.tabArr (nq * d) fun x => Sq.floatOfInt (nvec (x / d) (x % d)) * twopidl (x % d)
    let qv : Nat → Nat → Float := fun k j => qvA.getD (k * d + j) 0.0
    let theta : Nat → Nat → Float := fun i k => (List.range d).foldl (fun s j => s + qv k j * pos i j) 0.0
    let cA : Array Float := Sq.tabArr (N * nq) fun x => Float.cos (theta (x / nq) (x % nq))
    let sA : Array Float := Sq.tabArr (N * nq) fun x => Float.sin (theta (x / nq) (x % nq))
    let c : Nat → Nat → Float := fun i k => cA.getD (i * nq + k) 0.0
    let s : Nat → Nat → Float := fun i k => sA.getD (i * nq + k) 0.0
    let qval : Nat → Float := fun k => Float.sqrt ((List.range d).foldl (fun s j => s + qv k j * qv k j) 0.0)
    let inp : Input Float := { dtype := dt, rank := rank, m := m, sel := sel, A := A }
    let implO := (List.range nq).map fun k => Impl.condSq Pms.Gen.Cond.sqBranches Float.sqrt N inp c s k
    if implO.any (·.isNone) then pure "raise" else
    let implA : Array Float := (implO.filterMap id).toArray
    let n := if kind = .bool then countSel N sel else N
    let specA : Array Float := Sq.tabArr nq fun k => Spec.condSq n N m A c s k
    let ty : Nat → Nat → Nat := fun _ i => if sel i then 1 else 2
    let totA : Array Float := Sq.tabArr nq fun k => Sq.Spec.Stot 1 N (fun _ => c) (fun _ => s) k
    let partA : Array Float := Sq.tabArr nq fun k => Sq.Spec.S Float.sqrt 1 N ty (fun _ => c) (fun _ => s) 1 1 k
    let per := (List.range nq).map fun k =>
      s!"{showFloat (qval k)} {showFloat (implA.getD k 0.0)} {showFloat (specA.getD k 0.0)} {showFloat (totA.getD k 0.0)} {showFloat (partA.getD k 0.0)}"
    let rd := Sq.rnd Pms.Gen.Cond.sqRound
    let gi := Sq.groupMean nq key fun k => rd (implA.getD k 0.0)
    let gs := Sq.groupMean nq key fun k => Sq.rnd 8 (specA.getD k 0.0)
    let rows := keys.map fun x =>
      let k0 := ((List.range nq).find? (fun k => key k == x)).getD 0
      let vi := ((gi.find? (fun p => p.1 == x)).map (·.2)).getD 0.0
      let vsp := ((gs.find? (fun p => p.1 == x)).map (·.2)).getD 0.0
      s!"{showFloat (qval k0)} {showFloat vi} {showFloat vsp}"
    pure (s!"{showRat mKey} {nq} " ++ " ".intercalate per ++ s!" {keys.length} " ++ " ".intercalate rows)
  | _ => none

end Pms.Cond
