import Pms.Model.Prelude
import Pms.Model.Pbc
import Pms.Gen.Dyn
/-!
Model of `PyMatterSim/dynamic/dynamics.py` (C06): `Dynamics.relaxation`, `LogDynamics.relaxation`,
`Dynamics.sq4`, `cage_relative`.

`Impl` follows the Python loops step for step and is built FROM the regenerated definitions of
`Pms.Gen.Dyn` (loop ranges, index expressions, comparison operators, x4/alpha2 expressions,
alpha2factor).  `Spec` is the definition as property C06 states it and uses nothing regenerated.
Operation-polymorphic: runs at `Rat` in the driver, is reasoned about over any ordered field.
`np.cos`, `np.sin`, `np.rint`, `np.linalg.inv` are parameters.
-/
namespace Pms.Dyn
open Pms

/-- everything the three routines read.  Arrays are index functions (frame, particle, axis). -/
structure Traj (α : Type) where
  T : Nat
  N : Nat
  d : Nat
  /-- positions of `self.snapshots` (xu when given, else x) -/
  pos : Nat → Nat → Nat → α
  /-- snapshot.timestep -/
  ts : Nat → α
  dt : α
  /-- `pd.Series(particle_type of frame 0).map(diameters)` -/
  diam : Nat → α
  a : α
  qconst : α
  /-- cal_type ≠ "slow" -/
  fast : Bool
  /-- `self.PBC`: only wrapped coordinates were supplied -/
  pbc : Bool
  H : Nat → Nat → Nat → α
  Hinv : Nat → Nat → Nat → α
  ppp : Nat → α
  /-- a neighbour file was supplied -/
  cage : Bool
  /-- neighbour ids (0-based) of a particle in a frame: `cnlist[i, 1:cnlist[i,0]+1]` -/
  nb : Nat → Nat → List Nat
  /-- `condition[frame][particle]`; all true when `condition is None` -/
  sel : Nat → Nat → Bool

/-- the frames one loop iteration reads -/
structure Fr where
  init : Nat
  fin : Nat
  hm : Nat
  nbf : Nat
  cf : Nat

/-- the frames the definition reads for the pair (origin o, end e): everything from the origin -/
def Fr.spec (o e : Nat) : Fr := ⟨o, e, o, o, o⟩

structure Row (α : Type) where
  t : α
  isf : α
  qt : α
  x4 : α
  msd : α
  alpha2 : α

section
variable {α : Type} [Add α] [Sub α] [Mul α] [Div α] [OfNat α 0] [OfNat α 1] [NatCast α] [IntCast α]
  [LT α] [LE α] [DecidableLT α] [DecidableLE α]

/-- Σ over a list of indices -/
def lsum (l : List Nat) (f : Nat → α) : α := l.foldr (fun j s => f j + s) 0

/-- `acc[k] += v` with the addend evaluated only when slot `k` is read (`updF acc k v = upd acc k (v ())`) -/
def updF (acc : Nat → α) (k : Nat) (v : Unit → α) : Nat → α :=
  fun j => if j = k then acc j + v () else acc j

/-- `for x in range(lo, hi)` -/
def forRange {σ : Type} (lo hi : Nat) (f : σ → Nat → σ) (s : σ) : σ :=
  foldRange (hi - lo) (fun s j => f s (lo + j)) s

/-- `pos_end - pos_init`, then `remove_pbc` with the h-matrix of frame `hm` when `self.PBC` -/
def pbcDisp (rint : α → Int) (X : Traj α) (p : Fr) (i : Nat) : Nat → α :=
  let raw : Nat → α := fun k => X.pos p.fin i k - X.pos p.init i k
  if X.pbc then Pbc.removePbc X.d rint (X.H p.hm) (X.Hinv p.hm) X.ppp raw else raw

/-- `cage_relative`: RII[i] - RII[neighbours of i].mean(axis=0) -/
def cageRel (U : Nat → Nat → α) (nbs : Nat → List Nat) (i : Nat) : Nat → α :=
  fun k => U i k - lsum (nbs i) (fun j => U j k) / (((nbs i).length : Nat) : α)

/-- a tabulated (N × d) array with its defining function as fall-back outside the table.
A *value* (not a closure over a `let`), so the compiled driver computes each table exactly once;
`Tab2.get_tab : (Tab2.tab n m f).get = f`. -/
structure Tab2 (α : Type) where
  a : Array (Array α)
  f : Nat → Nat → α

@[noinline] def Tab2.tab (n m : Nat) (f : Nat → Nat → α) : Tab2 α :=
  ⟨Array.ofFn (n := n) fun i => Array.ofFn (n := m) fun j => f i.val j.val, f⟩

@[noinline] def Tab2.get (t : Tab2 α) (i j : Nat) : α :=
  if h : i < t.a.size then (if h2 : j < t.a[i].size then t.a[i][j] else t.f i j) else t.f i j

/-- the displacement array `RII` of one iteration, before the selection, tabulated -/
def dispTab (rint : α → Int) (X : Traj α) (p : Fr) : Tab2 α :=
  let U := Tab2.tab X.N X.d (pbcDisp rint X p)
  if X.cage then Tab2.tab X.N X.d (cageRel U.get (X.nb p.nbf)) else U

/-- the same as an index function (used in statements; executable paths read `dispTab`) -/
def disp (rint : α → Int) (X : Traj α) (p : Fr) : Nat → Nat → α := (dispTab rint X p).get

/-- `np.square(RII).sum(axis=1)` -/
def dist2 (d : Nat) (D : Nat → Nat → α) (i : Nat) : α := sumRange d fun k => D i k * D i k

/-- `self.a2_cuts = np.square(self.diameters * a)` -/
def cut (X : Traj α) (i : Nat) : α := (X.diam i * X.a) * (X.diam i * X.a)

/-- number of selected particles in the condition row of frame `f` -/
def selCount (X : Traj α) (f : Nat) : α := sumRange X.N fun i => if X.sel f i then 1 else 0

/-- mean over the selected rows of a per-particle value -/
def selMean (X : Traj α) (f : Nat) (g : Nat → α) : α :=
  (sumRange X.N fun i => if X.sel f i then g i else 0) / selCount X f

/-- `np.cos(RII * q_const[:, np.newaxis]).mean()` over the selected rows and all axes -/
def pairIsf (cos : α → α) (X : Traj α) (D : Nat → Nat → α) (f : Nat) : α :=
  (sumRange X.N fun i => if X.sel f i then sumRange X.d (fun k => cos (D i k * (X.qconst / X.diam i))) else 0)
    / (selCount X f * ((X.d : Nat) : α))

/-- `(distance < a2_cuts).mean()` resp. `>`; the comparison is a parameter -/
def pairQ (cmp : α → α → Bool) (X : Traj α) (D : Nat → Nat → α) (f : Nat) : α :=
  selMean X f fun i => if cmp (dist2 X.d D i) (cut X i) then 1 else 0

/-- `distance.mean()` -/
def pairR2 (X : Traj α) (D : Nat → Nat → α) (f : Nat) : α := selMean X f fun i => dist2 X.d D i

/-- `np.square(distance).mean()` -/
def pairR4 (X : Traj α) (D : Nat → Nat → α) (f : Nat) : α :=
  selMean X f fun i => dist2 X.d D i * dist2 X.d D i

/-- `self.time[k] = (timesteps[k+1] - timesteps[0]) * dt` -/
def time (X : Traj α) (k : Nat) : α := (X.ts (k + 1) - X.ts 0) * X.dt

/-! ### Impl : Dynamics.relaxation -/
namespace Impl
open Pms.Gen.Dyn

/-- the frames read by iteration (n, nn), regenerated index expressions -/
def relFr (n nn : Nat) : Fr := ⟨relInit n nn, relEnd n nn, relHmat n nn, relNeigh n nn, relCond n nn⟩

/-- `for n in range(..): for nn in range(..): acc[idx] += F n nn`, regenerated ranges -/
def relLoop (T : Nat) (idx : Nat → Nat → Nat) (F : Nat → Nat → α) : Nat → α :=
  forRange (relOuterLo T) (relOuterHi T)
    (fun acc n => forRange (relInnerLo n) (relInnerHi n) (fun acc nn => updF acc (idx n nn) (fun _ => F n nn)) acc)
    (fun _ => 0)

def relCmp (X : Traj α) : α → α → Bool := if X.fast then relFast else relSlow

/-- `len(a2_cuts)` after the loops: the selection of the last iteration executed -/
def relLastCount (X : Traj α) : α :=
  let n := relOuterHi X.T - 1
  selCount X (relCond n (relInnerHi n - 1))

def relaxation (rint : α → Int) (cos : α → α) (X : Traj α) (k : Nat) : Row α :=
  let counts := relLoop X.T relCountIndex (fun _ _ => (1 : α))
  let D := fun n nn => (dispTab rint X (relFr n nn)).get
  let isf := relLoop X.T relIndex fun n nn => pairIsf cos X (D n nn) (relCond n nn)
  let qt := relLoop X.T relIndex fun n nn => pairQ (relCmp X) X (D n nn) (relCond n nn)
  let qt2 := relLoop X.T relIndex fun n nn =>
    let medium := pairQ (relCmp X) X (D n nn) (relCond n nn)
    medium * medium
  let r2 := relLoop X.T relIndex fun n nn => pairR2 X (D n nn) (relCond n nn)
  let r4 := relLoop X.T relIndex fun n nn => pairR4 X (D n nn) (relCond n nn)
  let af : α := (alpha2factor X.d).getD 0
  { t := time X k
    isf := isf k / counts k
    qt := qt k / counts k
    x4 := relX4 (qt k / counts k) (qt2 k / counts k) (relLastCount X)
    msd := r2 k / counts k
    alpha2 := relAlpha2 af (r2 k / counts k) (r4 k / counts k) }

/-! ### Impl : LogDynamics.relaxation (one neighbour table, one condition row: frame 0) -/

def logFr (n : Nat) : Fr := ⟨logInit n, logEnd n, logHmat n, 0, 0⟩

/-- `for n in range(..): arr[idx n] = F n` -/
def logLoop (T : Nat) (F : Nat → α) : Nat → α :=
  forRange (logLo T) (logHi T) (fun acc n => set acc (logIndex n) (F n)) (fun _ => 0)

def logCmp (X : Traj α) : α → α → Bool := if X.fast then logFast else logSlow

def logRelaxation (rint : α → Int) (cos : α → α) (X : Traj α) (k : Nat) : Row α :=
  let D := fun n => (dispTab rint X (logFr n)).get
  let isf := logLoop X.T fun n => pairIsf cos X (D n) 0
  let qt := logLoop X.T fun n => pairQ (logCmp X) X (D n) 0
  let r2 := logLoop X.T fun n => pairR2 X (D n) 0
  let r4 := logLoop X.T fun n => pairR4 X (D n) 0
  let af : α := (alpha2factor X.d).getD 0
  { t := time X k, isf := isf k, qt := qt k, x4 := 0, msd := r2 k, alpha2 := logAlpha2 af (r2 k) (r4 k) }

end Impl

/-! ### Spec : the definition of property C06 -/
namespace Spec

/-- mean over all time origins `o` of a two-frame quantity at lag `k`: pairs (o, o+k), o + k < T -/
def avg (T k : Nat) (G : Nat → Nat → α) : α :=
  (sumRange (T - k) fun o => G o (o + k)) / (((T - k : Nat)) : α)

/-- slow: moved less than the cutoff; fast: moved further -/
def mobile (fast : Bool) (x c : α) : Bool := if fast then decide (c < x) else decide (x < c)

def isf (rint : α → Int) (cos : α → α) (X : Traj α) (o e : Nat) : α :=
  pairIsf cos X (dispTab rint X (Fr.spec o e)).get o
def q (rint : α → Int) (X : Traj α) (o e : Nat) : α :=
  pairQ (mobile X.fast) X (dispTab rint X (Fr.spec o e)).get o
def r2 (rint : α → Int) (X : Traj α) (o e : Nat) : α := pairR2 X (dispTab rint X (Fr.spec o e)).get o
def r4 (rint : α → Int) (X : Traj α) (o e : Nat) : α := pairR4 X (dispTab rint X (Fr.spec o e)).get o

/-- row for lag `k` (1 ≤ k < T); `M` is the number of selected particles, `interval` the spacing of
the timesteps -/
def row (rint : α → Int) (cos : α → α) (X : Traj α) (M interval : α) (k : Nat) : Row α :=
  let Q := avg X.T k (q rint X)
  let Q2 := avg X.T k fun o e => q rint X o e * q rint X o e
  let m2 := avg X.T k (r2 rint X)
  let m4 := avg X.T k (r4 rint X)
  { t := ((k : Nat) : α) * interval * X.dt
    isf := avg X.T k (isf rint cos X)
    qt := Q
    x4 := M * (Q2 - Q * Q)
    msd := m2
    alpha2 := (((X.d : Nat) : α) / (((X.d + 2 : Nat)) : α)) * m4 / (m2 * m2) - 1 }

/-- log sampling: the first frame is the only origin -/
def logRow (rint : α → Int) (cos : α → α) (X : Traj α) (k : Nat) : Row α :=
  { t := (X.ts k - X.ts 0) * X.dt
    isf := isf rint cos X 0 k
    qt := q rint X 0 k
    x4 := 0
    msd := r2 rint X 0 k
    alpha2 := (((X.d : Nat) : α) / (((X.d + 2 : Nat)) : α)) * r4 rint X 0 k / (r2 rint X 0 k * r2 rint X 0 k) - 1 }

end Spec

/-! ### Dynamics.sq4 : four-point structure factor of the mobile subset -/

/-- what `sq4` reads besides the trajectory -/
structure Sq4In (α : Type) where
  /-- wave vectors (integers), `choosewavevector` output: input data -/
  qv : Nat → Nat → Int
  /-- `2π / boxlength` per axis as evaluated by numpy: input data -/
  twopidl : Nat → α
  /-- positions handed to `conditional_sq` (x/xs frames when both kinds were given, else `pos`) -/
  spos : Nat → Nat → Nat → α

/-- `(qvector * positions[i]).sum(axis=1)` for wave vector j, particle i of frame f -/
def theta (d : Nat) (Q : Sq4In α) (f j i : Nat) : α :=
  sumRange d fun k => (((Q.qv j k : Int) : α) * Q.twopidl k) * Q.spos f i k

/-- `conditional_sq` with a boolean condition: |Σ_{i∈mask} e^{-iθ_i}|² / #mask
(`np.exp(-1j·θ) = cos θ − i·sin θ`, `(z·conj z).real = re² + im²`: contracts) -/
def condSq (cos sin : α → α) (N : Nat) (mask : Nat → Bool) (th : Nat → α) : α :=
  let c := sumRange N fun i => if mask i then cos (th i) else 0
  let s := sumRange N fun i => if mask i then sin (th i) else 0
  (c * c + s * s) / (sumRange N fun i => if mask i then 1 else 0)

/-- `groupby(q).mean()`: mean over the wave vectors of one |q| shell -/
def shellMean (members : List Nat) (g : Nat → α) : α := lsum members g / ((members.length : Nat) : α)

namespace Impl
open Pms.Gen.Dyn

def sq4Fr (n nt : Nat) : Fr := ⟨sq4Init n nt, sq4End n nt, sq4Hmat n nt, sq4Neigh n nt, sq4Cond n nt⟩

def sq4Cmp (X : Traj α) : α → α → Bool := if X.fast then sq4Fast else sq4Slow

/-- `mobility_condition` of iteration n (times `condition[...]` when given) -/
def sq4Mask (rint : α → Int) (X : Traj α) (n nt : Nat) : Nat → Bool :=
  let D := (dispTab rint X (sq4Fr n nt)).get
  fun i => sq4Cmp X (dist2 X.d D i) (cut X i) && X.sel (sq4Cond n nt) i

/-- `ave_sqresults = 0; for n in range(..): ave_sqresults += S n` -/
def sq4Sum (T nt : Nat) (S : Nat → α) : α :=
  forRange (sq4Lo T nt) (sq4Hi T nt) (fun acc n => acc + S n) 0

/-- the `Sq` value of one |q| shell -/
def sq4Shell (rint : α → Int) (cos sin : α → α) (X : Traj α) (Q : Sq4In α) (nt : Nat) (members : List Nat) : α :=
  sq4Sum X.T nt (fun n =>
      let mask := sq4Mask rint X n nt
      shellMean members fun j => condSq cos sin X.N mask (theta X.d Q (sq4Snap n nt) j))
    / ((sq4Div X.T nt : Nat) : α)

/-- the `q` column is summed and divided as well: q·(iterations / divisor) -/
def sq4QScale (T nt : Nat) : α := sq4Sum T nt (fun _ => (1 : α)) / ((sq4Div T nt : Nat) : α)

/-- `n_t = round(t / self.time[0])` -/
def sq4Lag (rint : α → Int) (X : Traj α) (t : α) : Nat := (rint (t / time X 0)).toNat

end Impl

namespace Spec

/-- the mobile (slow or fast) subset for the pair (o, e), restricted to the condition row of the origin -/
def mobileMask (rint : α → Int) (X : Traj α) (o e : Nat) : Nat → Bool :=
  fun i => mobile X.fast (dist2 X.d (dispTab rint X (Fr.spec o e)).get i) (cut X i) && X.sel o i

/-- S4 of one |q| shell at lag `nt`: structure factor of the mobile subset of the ORIGIN frame, averaged over
the shell and over all origins o with o + nt < T -/
def sq4Shell (rint : α → Int) (cos sin : α → α) (X : Traj α) (Q : Sq4In α) (nt : Nat) (members : List Nat) : α :=
  (sumRange (X.T - nt) fun o =>
      shellMean members fun j => condSq cos sin X.N (mobileMask rint X o (o + nt)) (theta X.d Q o j))
    / ((X.T - nt : Nat) : α)

end Spec
end

end Pms.Dyn
