import Pms.Model.Prelude
/-!
Model of the post-processing in `PyMatterSim/neighbors/voropp_neighbors.py` (core only; EXTRA — no listed property is about it).
The external program `voro++` is NOT modelled: its output file `dumpused.vol` (one line per particle,
`"%i %s %v %F @%i %A @%i %s %n @%i %s %f"`) is the INPUT here.

* `cal_voro`     : every line is split at `@` and the four parts go to the overall / index / neighbour / face-area files.
* `voronowalls`  : besides that, the artificial walls (negative neighbour ids) are removed from the neighbour list and — with the SAME
                   boolean mask, computed on the whole integer array `[id, cn, n_1, …]` — from the face-area list; the coordination
                   number and the total face area are recomputed.
* `indicehis`    : frequency table of the Voronoi index columns `<n3 n4 n5 n6>`.
-/
namespace Pms.Voropp
open Pms

/-- one line of `dumpused.vol`, parsed: `ov = [id, cn, volume, area]`, `idx` = the index part as text, `nb = [id, cn, n_1, …]`,
`fa = [id, cn, f_1, …]` -/
structure Cell where
  ov : List Rat
  idx : String
  nb : List Int
  fa : List Rat
deriving Repr, Inhabited

/-- result of `voronowalls` for one cell; `none` = numpy raises (boolean index of the wrong length, or `neighbor[1]` / `overall[3]`
out of bounds) -/
structure Out where
  nb : List Int
  fa : List Rat
  ov : List Rat
deriving Repr, Inhabited, DecidableEq

/-- `a[mask]` for a boolean mask of the same length -/
def maskBy {β : Type} : List Bool → List β → List β
  | m :: ms, x :: xs => if m then x :: maskBy ms xs else maskBy ms xs
  | _, _ => []

def sumRat (l : List Rat) : Rat := l.foldl (· + ·) 0

/-- Impl: the statements of the loop body of `voronowalls`, in order -/
def wallsImpl (c : Cell) : Option Out :=
  let mask := c.nb.map fun n => decide (n > 0)                 -- mneighbor > 0
  let neighbor := maskBy mask c.nb                             -- neighbor = mneighbor[mneighbor > 0]
  if neighbor.length < 2 then none else                        -- neighbor[1] = …
  let cn : Int := ((neighbor.drop 2).length : Nat)
  let neighbor := neighbor.set 1 cn
  if c.fa.length ≠ c.nb.length then none else                  -- facearea[mneighbor > 0]
  let facearea := (maskBy mask c.fa).set 1 (cn : Rat)
  if c.ov.length < 4 then none else
  let overall := (c.ov.set 1 (cn : Rat)).set 3 (sumRat (facearea.drop 2))
  some { nb := neighbor, fa := facearea, ov := overall }

/-- Spec, for a well-formed line (id > 0, cn > 0, as many areas as neighbours): keep the real neighbours, with their own areas -/
def keptNb (nbrs : List Int) : List Int := nbrs.filter fun n => decide (n > 0)
def keptFa (nbrs : List Int) (areas : List Rat) : List Rat :=
  (nbrs.zip areas).filterMap fun p => if p.1 > 0 then some p.2 else none

def wallsSpec (id : Int) (nbrs : List Int) (areas : List Rat) (vol : Rat) : Out :=
  let k := keptNb nbrs
  { nb := id :: (k.length : Int) :: k,
    fa := (id : Rat) :: (k.length : Rat) :: keptFa nbrs areas,
    ov := [(id : Rat), (k.length : Rat), vol, sumRat (keptFa nbrs areas)] }

/-! ### indicehis -/

/-- the key of one data line: tokens after the id, zero-padded to 15 integers, columns 3..6 -/
def hisKey (toks : List Int) : List Int := ((toks ++ List.replicate 15 0).take 15 |>.drop 3).take 4

/-- lexicographic order on keys (what `np.unique(axis=0)` sorts by) -/
def lexLE : List Int → List Int → Bool
  | [], _ => true
  | _ :: _, [] => false
  | a :: as, b :: bs => if a < b then true else if b < a then false else lexLE as bs

/-- distinct keys in the order of first occurrence -/
def distinct : List (List Int) → List (List Int)
  | [] => []
  | k :: t => k :: (distinct t).filter fun x => x != k

/-- distinct keys with their counts -/
def countKeys (keys : List (List Int)) : List (List Int × Nat) :=
  (distinct keys).map fun k => (k, keys.count k)

/-- `indicehis`: rows `(key, count/total)`, by decreasing count (the order among equal counts is numpy's choice; the model breaks
ties by the reverse of the lexicographic order, which is what `argsort(counts)[::-1]` does for a stable sort) -/
def indiceHis (lines : List (List Int)) : List (List Int × Rat) :=
  let keys := lines.map hisKey
  let total : Rat := (keys.length : Nat)
  let tab := (countKeys keys).mergeSort fun a b => lexLE a.1 b.1
  let sorted := (tab.mergeSort fun a b => decide (a.2 ≤ b.2)).reverse
  sorted.map fun p => (p.1, ((p.2 : Nat) : Rat) / total)

end Pms.Voropp
