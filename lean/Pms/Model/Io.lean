import Pms.Model.Prelude
/-! Line-protocol helpers for the compiled driver (core only). -/
namespace Pms.Io

/-- exact decimal parser: `-12.345`, `7`, `3/4`, `1.5e-3` -/
def parseNatDigits (s : String) : Option Nat :=
  if s.isEmpty then none else if s.all Char.isDigit then s.toNat? else none

def parseDecCore (s : String) : Option Rat :=
  match s.splitOn "." with
  | [a] => (parseNatDigits a).map fun n => (n : Rat)
  | [a, b] => do
      let n ← if a.isEmpty then some 0 else parseNatDigits a
      let m ← if b.isEmpty then some 0 else parseNatDigits b
      pure ((n : Rat) + (m : Rat) / ((10 ^ b.length : Nat) : Rat))
  | _ => none

def parseSigned (s : String) : Option Rat :=
  if s.startsWith "-" then (parseDecCore (s.drop 1).toString).map (fun v => -v)
  else if s.startsWith "+" then parseDecCore (s.drop 1).toString
  else parseDecCore s

def parseInt (s : String) : Option Int :=
  if s.startsWith "-" then (parseNatDigits (s.drop 1).toString).map (fun n => -(n : Int))
  else if s.startsWith "+" then (parseNatDigits (s.drop 1).toString).map (fun n => (n : Int))
  else (parseNatDigits s).map (fun n => (n : Int))

def parseRat (s : String) : Option Rat :=
  match s.splitOn "/" with
  | [a, b] => do
      let n ← parseInt a; let d ← parseNatDigits b
      if d = 0 then none else pure ((n : Rat) / (d : Rat))
  | [a] =>
    match (a.map Char.toLower).splitOn "e" with
    | [m] => parseSigned m
    | [m, e] => do
        let mv ← parseSigned m; let ev ← parseInt e
        pure (if ev ≥ 0 then mv * ((10 ^ ev.toNat : Nat) : Rat) else mv / ((10 ^ (-ev).toNat : Nat) : Rat))
    | _ => none
  | _ => none

def showRat (r : Rat) : String := if r.den = 1 then s!"{r.num}" else s!"{r.num}/{r.den}"

def ratToFloat (r : Rat) : Float :=
  -- correctly rounded enough for comparison purposes: scale to ~ 60 significant bits
  let n := r.num; let d := r.den
  if n = 0 then 0.0 else
  let a := n.natAbs
  let la := a.log2; let ld := d.log2
  -- want a * 2^s / d to have about 64 bits
  let s : Int := 64 + (ld : Int) - (la : Int)
  let q : Nat := if s ≥ 0 then (a <<< s.toNat) / d else a / (d <<< (-s).toNat)
  let f := Float.ofScientific 0 false 0 + (Float.ofNat q) * Float.exp2 (Float.ofInt (-s))
  if n < 0 then -f else f

/-- Float as raw bits (decimal UInt64), so nothing is lost in transit -/
def showFloat (x : Float) : String := s!"{x.toBits.toNat}"
def parseFloatBits (s : String) : Option Float := (parseNatDigits s).map fun n => Float.ofBits n.toUInt64

def words (line : String) : List String :=
  (line.trimAscii.toString.splitOn " ").filter (· ≠ "")

/-- take `n` parsed values off the front of a token list -/
def takeMap {β : Type} (p : String → Option β) : Nat → List String → Option (List β × List String)
  | 0, ts => some ([], ts)
  | n+1, t :: ts => do
      let v ← p t
      let (vs, rest) ← takeMap p n ts
      pure (v :: vs, rest)
  | _+1, [] => none

def listGet {β : Type} [Inhabited β] (l : List β) : Nat → β := fun i => l.getD i default

def arrFn {β : Type} [Inhabited β] (l : List β) : Nat → β :=
  let a := l.toArray
  fun i => a.getD i default

def arrFn2 {β : Type} [Inhabited β] (l : List β) (ncol : Nat) : Nat → Nat → β :=
  let a := l.toArray
  fun i j => a.getD (i * ncol + j) default

def joinRat (l : List Rat) : String := " ".intercalate (l.map showRat)

end Pms.Io
