import Pms.Model.Prelude
import Pms.Model.Pbc
import Pms.Gen.Coarse
/-!
Model of `PyMatterSim/utils/coarse_graining.py` (C16), core Lean only.

`Impl` definitions are assembled from the terms REGENERATED from the source (`Pms.Gen.Coarse`: loop nests,
`indice` expressions, slice bounds, divisor, window length, middle index, Gaussian weight, cut-off comparison);
`Spec` definitions are written by hand from the property statement.  Arrays are index functions; a per-particle
property of any rank is `particle → component → α` (the trailing axes flattened).
-/
namespace Pms.Coarse
open Pms Pms.Gen.Coarse

/-! ## spatial_average -/
section spatial
variable {α : Type} [Add α] [Div α] [IntCast α]

/-- Impl, one (frame, particle, component): `cg = x[i]; for j in row[lo:hi]: cg += x[j]; cg /= divisor`.
`row k` is `cnlist[i, k]` (column 0 = coordination number, then the neighbour ids). -/
def spatialOne (row : Nat → Int) (x : Nat → α) (i : Nat) : α :=
  foldRange ((nbHi row - nbLo row).toNat) (fun acc t => acc + x (row ((nbLo row).toNat + t)).toNat) (x i)
    / ((divisor row : Int) : α)

/-- Impl over frames: frame `n` uses the neighbour table read for frame `n` and the un-averaged input of frame `n` -/
def spatialImpl (table : Nat → Nat → Nat → Int) (x : Nat → Nat → Nat → α) (n i c : Nat) : α :=
  spatialOne (table n i) (fun j => x n j c) i

/-- Spec: the mean over the particle itself and its `cn` listed neighbours `nb 0 … nb (cn-1)` -/
def spatialSpec [OfNat α 0] (cn : Nat) (nb : Nat → Nat) (x : Nat → α) (i : Nat) : α :=
  (x i + sumRange cn fun t => x (nb t)) / (((1 + cn : Nat) : Int) : α)

end spatial

/-! ## gaussian_blurring: the grid -/
section grid
variable {α : Type} [Add α] [Sub α] [Mul α] [Div α] [NatCast α] [OfNat α 0]

/-- contract of `np.linspace(lo, hi, n)[i]` : `lo + i·(hi − lo)/(n − 1)` -/
def linspace (lo hi : α) (n i : Nat) : α := lo + (i : α) * ((hi - lo) / ((n - 1 : Nat) : α))

/-- Impl: `grid_positions[n]` after the regenerated loop nest (array initialised with zeros) -/
def gridImpl (ndim n0 n1 n2 : Nat) (bb : Nat → Nat → α) : Nat → Nat → α :=
  let X := axisX linspace bb n0 n1 n2
  let Y := axisY linspace bb n0 n1 n2
  if ndim = 2 then gridLoop2 n0 n1 X Y (fun _ _ => 0)
  else gridLoop3 n0 n1 n2 X Y (axisZ linspace bb n0 n1 n2) (fun _ _ => 0)

/-- Spec: the full Cartesian grid, x slowest: flat index `g = (i·n1 + j)·n2 + k` (2-D: `i·n1 + j`) carries the point
`(X_i, Y_j, Z_k)` with `X_i = lo_x + i (hi_x − lo_x)/(n0 − 1)` etc. -/
def gridSpec (ndim n0 n1 n2 : Nat) (bb : Nat → Nat → α) (g c : Nat) : α :=
  if ndim = 2 then
    (if c = 0 then linspace (bb 0 0) (bb 0 1) n0 (g / n1) else linspace (bb 1 0) (bb 1 1) n1 (g % n1))
  else
    (if c = 0 then linspace (bb 0 0) (bb 0 1) n0 (g / (n1 * n2))
     else if c = 1 then linspace (bb 1 0) (bb 1 1) n1 (g / n2 % n1)
     else linspace (bb 2 0) (bb 2 1) n2 (g % n2))

end grid

/-! ## gaussian_blurring: the values -/
section blur
variable {α : Type} [Add α] [Sub α] [Mul α] [OfNat α 0] [IntCast α]

/-- squared length of the minimum-image displacement `remove_pbc(g − p)` (C02's model) -/
def dist2 (d : Nat) (rint : α → Int) (H Hinv : Nat → Nat → α) (ppp g p : Nat → α) : α :=
  let r := Pbc.removePbc d rint H Hinv ppp (fun k => g k - p k)
  sumRange d fun k => r k * r k

/-- the cut-off decision `|r| < cut`, taken on the squared distance (no square root needed) -/
def selectedSq [LT α] [DecidableLT α] (cut d2 : α) : Bool := decide (0 < cut) && decide (d2 < cut * cut)

variable {β : Type} [Add β] [Sub β] [Mul β] [Div β] [Neg β] [NatCast β] [OfNat β 0]

/-- Impl: `(probability * condition[n, selection]).sum()` for one grid point and one component.
Geometry and the cut-off are computed in `α`; the Gaussian weight (regenerated `gridGaussian` applied to
`np.linalg.norm` = `sqrtf` of the squared length) in `β` through `cast`.  Theorems use `α = β`, `cast = id`;
the driver uses `α = Rat` (exact decisions) and `β = Float` (evaluates `exp`). -/
def blurImpl [LT α] [DecidableLT α] (cast : α → β) (expf sqrtf : β → β) (pi sigma : β) (cut : α)
    (np : Nat) (d2 : Nat → α) (cond : Nat → β) : β :=
  sumRange np fun p =>
    if selectedSq cut (d2 p) then gridGaussian expf sqrtf pi (sqrtf (cast (d2 p))) sigma * cond p else 0

/-- the normalised Gaussian of the property statement: exp(−r²/2σ²)/√(2πσ²) -/
def gauss (expf sqrtf : β → β) (pi sigma r : β) : β :=
  expf (-(r * r) / (((2 : Nat) : β) * (sigma * sigma))) / sqrtf (((2 : Nat) : β) * pi * (sigma * sigma))

/-- Spec: Σ over the particles whose minimum-image distance `dist p` is below the cut-off of
gauss(dist p) · property -/
def blurSpec [LT β] [DecidableLT β] (expf sqrtf : β → β) (pi sigma cut : β) (np : Nat) (dist : Nat → β) (cond : Nat → β) : β :=
  sumRange np fun p => if dist p < cut then gauss expf sqrtf pi sigma (dist p) * cond p else 0

/-- Spec with the cut-off decided on the squared distance (what the driver's `spec` mode evaluates: exact ℚ decision,
hand-written `gauss` in `β`); equal to `blurSpec` by `C16_blur_spec_sq` -/
def blurSpecSq [LT α] [DecidableLT α] (cast : α → β) (expf sqrtf : β → β) (pi sigma : β) (cut : α)
    (np : Nat) (d2 : Nat → α) (cond : Nat → β) : β :=
  sumRange np fun p => if selectedSq cut (d2 p) then gauss expf sqrtf pi sigma (sqrtf (cast (d2 p))) * cond p else 0

end blur

/-! ## time_average -/
section time
variable {α : Type} [Add α] [Sub α] [Mul α] [Div α] [NatCast α] [IntCast α] [OfNat α 0]

/-- Impl: the window length computed by the regenerated expressions -/
def windowImpl (rint trunc : α → Int) (period t0 t1 dt : α) : Int :=
  windowLen rint trunc period (timeInterval t0 t1 dt)

/-- numpy slice bound clipped to the array length (non-negative bounds) -/
def clip (T : Nat) (a : Int) : Nat := min a.toNat T

/-- Impl: `input_property[lo:hi].mean(axis=0)` for one particle/component; `T` frames -/
def timeAvgImpl (T : Nat) (w : Int) (x : Nat → α) (n : Nat) : α :=
  let lo := clip T (sliceLo n w)
  let hi := clip T (sliceHi n w)
  (sumRange (hi - lo) fun t => x (lo + t)) / (((hi - lo : Nat) : Int) : α)

/-- Spec: mean over the `w` consecutive frames n … n+w−1 -/
def timeAvgSpec (w : Nat) (x : Nat → α) (n : Nat) : α :=
  (sumRange w fun t => x (n + t)) / ((w : Int) : α)

/-- Spec: index of the window's central frame (for even `w` the later of the two central frames) -/
def middleSpec (n w : Nat) : Nat := n + w / 2

end time

/-- Python `int()` on a rational: truncation toward zero -/
def ratTrunc (x : Rat) : Int := if 0 ≤ x then x.floor else -((-x).floor)

end Pms.Coarse
