-- DRIVER: hess Pms.Hess.handleHess
-- DRIVER: hesspr Pms.Hess.handlePr
-- DRIVER: hessfreq Pms.Hess.handleFreq
import Pms.Model.Hess
import Pms.Model.PbcDriver
import Pms.Model.Io
import Pms.Gen.HessF
import Pms.Gen.PairF
/-! Driver operations for C11.  Geometry and every discrete decision (rint of the minimum image, `distance <= r_c`,
`r > 0`) are evaluated in exact ℚ (margin); the values are evaluated with the regenerated `Float` terms. -/
namespace Pms.Hess
open Pms Pms.Io

/-- the regenerated Float terms, packaged; `kind`/`shift`/`params` select `PairInteractions.caller`'s branch -/
def floatPrims (kind : String) (shift : Bool) (params : List Float) : Prims Float where
  sqrt := Float.sqrt
  ofNat := Float.ofNat
  blk2 := Gen.HessF.blk2
  blk3 := Gen.HessF.blk3
  zDefault := Gen.HessF.z_default
  dudr2j := Gen.HessF.dudr2j
  prefactor := Gen.HessF.prefactor
  cond := Gen.HessF.cond
  asm1 := Gen.HessF.asm1_rhs
  asm2 := Gen.HessF.asm2_rhs
  frequencies := Gen.HessF.frequencies
  caller := fun r e s rc =>
    match kind, params with
    | "lj", _ => (Gen.PairF.lj_s1 r e s rc shift, Gen.PairF.lj_s1rc r e s rc shift, Gen.PairF.lj_s2 r e s rc shift)
    | "ipl", [n, a] => (Gen.PairF.ipl_s1 r e s rc n a shift, Gen.PairF.ipl_s1rc r e s rc n a shift, Gen.PairF.ipl_s2 r e s rc n a shift)
    | "hh", [al] => (Gen.PairF.hh_s1 r e s rc al shift, Gen.PairF.hh_s1rc r e s rc al shift, Gen.PairF.hh_s2 r e s rc al shift)
    | _, _ => (0, 0, 0)

/--
`hess d H[d*d] ppp[d] n type[n] pos[n*d] nt mass[nt] eps[nt*nt] sig[nt*nt] rc[nt*nt] kind shift params…`
(all numbers decimal strings, parsed exactly) → `margin npairs dn entries[dn*dn as float bits]`.
margin = min over ordered pairs i ≠ j of: distance of each periodic fractional coordinate from a rounding tie,
|d² − r_c²| / (2 r_c)  (≈ |d − r_c|), and d² itself.
-/
def handleHess (toks : List String) : Option String := do
  let (dl, rest) ← takeMap parseNatDigits 1 toks
  let d := dl.headD 0
  if d ≠ 2 ∧ d ≠ 3 then none
  let (hs, rest) ← takeMap parseRat (d*d) rest
  let (ps, rest) ← takeMap parseRat d rest
  let (nl, rest) ← takeMap parseNatDigits 1 rest
  let n := nl.headD 0
  let (ts, rest) ← takeMap parseNatDigits n rest
  let (xs, rest) ← takeMap parseRat (n*d) rest
  let (ntl, rest) ← takeMap parseNatDigits 1 rest
  let nt := ntl.headD 0
  let (ms, rest) ← takeMap parseRat nt rest
  let (es, rest) ← takeMap parseRat (nt*nt) rest
  let (ss, rest) ← takeMap parseRat (nt*nt) rest
  let (rcs, rest) ← takeMap parseRat (nt*nt) rest
  match rest with
  | kind :: sh :: prest =>
    let params ← prest.mapM parseRat
    -- concrete arrays (a partial application of `memo`/`arrFn` would be re-tabulated on every read)
    let hsA := hs.toArray
    let Hm : Nat → Nat → Rat := fun i j => hsA.getD (i*d + j) 0
    let HinvF := Pbc.inverse d Hm
    let HinvA : Array Rat := Array.ofFn (n := d*d) fun idx => HinvF (idx.val / d) (idx.val % d)
    let Hinv : Nat → Nat → Rat := fun i j => HinvA.getD (i*d + j) 0
    let psA := ps.toArray
    let ppp : Nat → Rat := fun k => psA.getD k 0
    let xsA := xs.toArray
    let pos : Nat → Nat → Rat := fun i k => xsA.getD (i*d + k) 0
    let tsA := ts.toArray
    let ptype : Nat → Nat := fun i => tsA.getD i 0
    let rcA := rcs.toArray
    let rcQ : Nat → Nat → Rat := fun a b => rcA.getD (a*nt + b) 0
    -- exact geometry
    let dispQ := dispOf d ratRint Hm Hinv ppp pos
    let tab : Array Rat := Array.ofFn (n := n*n*d) fun idx => dispQ (idx.val / d / n) (idx.val / d % n) (idx.val % d)
    let dq : Nat → Nat → Nat → Rat := fun i j k => tab.getD ((i*n + j)*d + k) 0
    let mut margin : Rat := 1
    let mut npairs : Nat := 0
    for i in List.range n do
      for j in List.range n do
        if i ≠ j then
          let f := Pbc.frac d Hinv (fun k => pos i k - pos j k)
          for k in List.range d do
            if ppp k ≠ 0 then
              let mg := Pbc.tieMargin (f k)
              if mg < margin then margin := mg
          let d2 : Rat := sumRange d fun k => dq i j k * dq i j k
          let rc := rcQ (ptype i - 1) (ptype j - 1)
          if rc ≤ 0 then none
          let mg := Pbc.absRat (d2 - rc*rc) / (2*rc)
          if mg < margin then margin := mg
          if d2 < margin then margin := d2
          if d2 ≤ rc*rc then npairs := npairs + 1
    -- values: regenerated Float terms
    let tabF : Array Float := tab.map ratToFloat
    let mA : Array Float := (ms.map ratToFloat).toArray
    let eA : Array Float := (es.map ratToFloat).toArray
    let sA : Array Float := (ss.map ratToFloat).toArray
    let rA : Array Float := (rcs.map ratToFloat).toArray
    let S : Sys Float := {
      n := n, d := d, ptype := ptype,
      masses := fun t => mA.getD (t - 1) 0,
      eps := fun a b => eA.getD (a*nt + b) 0, sig := fun a b => sA.getD (a*nt + b) 0, rcut := fun a b => rA.getD (a*nt + b) 0,
      disp := fun i j k => tabF.getD ((i*n + j)*d + k) 0 }
    let P := floatPrims kind (sh == "1") (params.map ratToFloat)
    let Hf := hessian P S
    let dn := d*n
    let mut outs : List String := []
    for p in List.range dn do
      for q in List.range dn do
        outs := showFloat (Hf p q) :: outs
    pure (showRat margin ++ s!" {npairs} {dn} " ++ " ".intercalate outs.reverse)
  | _ => none

/-- `hesspr n d v[n*d as float bits]` → participation ratio (float bits) -/
def handlePr (toks : List String) : Option String := do
  let (l, rest) ← takeMap parseNatDigits 2 toks
  let n := l.headD 0
  let d := (l.drop 1).headD 0
  let (vs, rest) ← takeMap parseFloatBits (n*d) rest
  if !rest.isEmpty then none
  let vA := vs.toArray
  pure (showFloat (pr Float.ofNat n d (fun i k => vA.getD (i*d + k) 0)))

/-- `hessfreq λ…(float bits)` → regenerated `frequencies` per eigenvalue (float bits) -/
def handleFreq (toks : List String) : Option String := do
  let vs ← toks.mapM parseFloatBits
  pure (" ".intercalate (vs.map fun x => showFloat (Gen.HessF.frequencies x)))

end Pms.Hess
