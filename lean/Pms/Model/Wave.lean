import Pms.Model.Prelude
/-!
Model of `PyMatterSim/utils/wavevector.py::choosewavevector` (core only).  The loop nest, the perfect-square test,
the row layout and the axis filters are DATA regenerated from the source (`Pms.Gen.Wave.branches`); this file interprets them.
`modf(sqrt(n))[0] == 0` on a non-negative integer is modelled by its contract "n is a perfect square".
-/
namespace Pms.Wave

/-- loop bound in terms of `nhalf` -/
inductive Bnd where
  | neg | pos | zero
deriving DecidableEq, Repr, Inhabited

/-- comparison of one column with 0 -/
inductive Cmp where
  | gt0 | eq0 | ge0 | lt0 | le0 | ne0
deriving DecidableEq, Repr, Inhabited

structure Branch where
  ndim : Nat
  loops : List (Bnd × Bnd)
  squares : List Nat
  row : List Nat
  filters : List (String × List (Nat × Cmp))
deriving DecidableEq, Repr, Inhabited

/-- the `onlypositive` argument: `False`, `True`, or a string ('x', 'y', 'z', …) -/
inductive Pos where
  | no | yes | axis (s : String)
deriving DecidableEq, Repr, Inhabited

def Bnd.val (h : Int) : Bnd → Int
  | .neg => -h
  | .pos => h
  | .zero => 0

def Cmp.holds (x : Int) : Cmp → Bool
  | .gt0 => decide (x > 0) | .eq0 => x == 0 | .ge0 => decide (x ≥ 0)
  | .lt0 => decide (x < 0) | .le0 => decide (x ≤ 0) | .ne0 => x != 0

/-- `range(lo, hi)` -/
def intRange (lo hi : Int) : List Int := (List.range (hi - lo).toNat).map fun (k : Nat) => lo + (k : Int)

/-- the tuples of loop variables visited by the loop nest, outermost loop first, in visiting order -/
def tuples (h : Int) : List (Bnd × Bnd) → List (List Int)
  | [] => [[]]
  | (lo, hi) :: rest => (intRange (lo.val h) (hi.val h)).flatMap fun x => (tuples h rest).map (x :: ·)

/-- contract of `modf(sqrt(n))[0] == 0` for an integer n ≥ 0 -/
def isSq (n : Nat) : Bool := Nat.sqrt n * Nat.sqrt n == n

def sumSquares (idx : List Nat) (t : List Int) : Nat :=
  (idx.foldl (fun acc j => acc + t.getD j 0 * t.getD j 0) (0 : Int)).toNat

def Branch.rows (b : Branch) (h : Int) : List (List Int) :=
  ((tuples h b.loops).filter fun t => isSq (sumSquares b.squares t)).map fun t => b.row.map fun j => t.getD j 0

def passes (conds : List (Nat × Cmp)) (v : List Int) : Bool := conds.all fun p => p.2.holds (v.getD p.1 0)

def isZero (v : List Int) : Bool := v.all (· == 0)

/-- `choosewavevector(ndim, numofq, onlypositive)`; the zero rows of the over-allocated array never survive
(the zero rows are removed right after the axis filter) so they are not materialised -/
def choose (bs : List Branch) (d numofq : Nat) (pos : Pos) : List (List Int) :=
  let h : Int := ((numofq / 2 : Nat) : Int)
  match bs.find? (fun b => b.ndim == d) with
  | none => []
  | some b =>
    let rows := b.rows h
    let rows := match pos with
      | .axis s => (match b.filters.find? (fun (f : String × List (Nat × Cmp)) => f.1 == s) with
                    | some f => rows.filter (passes f.2)
                    | none => rows)
      | _ => rows
    let rows := rows.filter fun v => !isZero v
    match pos with
    | .yes => rows.filter fun v => v.all (fun x => decide (x ≥ 0))
    | _ => rows

end Pms.Wave
