import Pms.Model.Gr
import Pms.Model.Sq
/-!
Model of `PyMatterSim/static/gr.py::conditional_gr` and `PyMatterSim/static/sq.py::conditional_sq`, core Lean only.

A per-particle quantity is `A : Nat → Nat → Cx α` (particle, component; `Cx` = complex number as a pair, from
`Pms.Sq`): one component for a scalar, `m = d` for a vector, `m = d·d` for a tensor (component `a·d + b`).  A real
quantity has zero imaginary parts; a boolean selection is the 0/1 indicator of `sel` (what `astype(np.int32)` gives).

* vocabulary of the REGENERATED data (`Pms/Gen/Cond.lean`, written by `translator/gens/cond.py`):
  `PrepTree` (the dtype / `conditiontype` if-chain with what each branch does: cast, `Natom = condition.sum()`,
  `np.conj` or `.copy()`, `norminator`), `Weight` (the `SIJ` expression of each pair loop), `Stmt`/`CExpr` (the
  normalisation statements, executed in source order), `SqBranch` (the branches of `conditional_sq`);
* `Impl.*` interprets that data step for step;
* `Spec.*` is the definition in the property statement, built on `Pms.Gr.pairHist` (the weighted ORDERED-pair
  histogram of C03) and on density modes in the style of `Pms.Sq.mode` (C04).
-/
namespace Pms.Cond
open Pms
open Pms.Sq (Cx reMulConj phase)

/-! ### what `condition` can be -/

/-- numpy dtype of `condition` (canonical names) -/
inductive DType | bool | int64 | float32 | float64 | complex64 | complex128
deriving DecidableEq, Repr, Inhabited

def DType.name : DType → String
  | .bool => "bool" | .int64 => "int64" | .float32 => "float32" | .float64 => "float64"
  | .complex64 => "complex64" | .complex128 => "complex128"

def DType.isComplex : DType → Bool
  | .complex64 | .complex128 => true
  | _ => false

def DType.all : List DType := [.bool, .int64, .float32, .float64, .complex64, .complex128]

def DType.ofName (s : String) : Option DType := DType.all.find? (·.name == s)

/-- a test on `condition` in an `if` -/
inductive DTest
  | dtypeEq (name : String)   -- `condition.dtype == "<name>"`
  | isComplex                 -- `np.iscomplexobj(condition)` / `np.issubdtype(condition.dtype, np.complexfloating)`
  | shapeGt1                  -- `len(condition.shape) > 1`
deriving DecidableEq, Repr, Inhabited

/-- `rank` = `len(condition.shape)` -/
def DTest.eval : DTest → DType → Nat → Bool
  | .dtypeEq s, dt, _ => dt.name == s
  | .isComplex, dt, _ => dt.isComplex
  | .shapeGt1, _, rank => decide (rank > 1)

/-- a test on the argument `conditiontype` (None = `none`) -/
inductive CTest
  | falsy             -- `not conditiontype`
  | eq (s : String)   -- `conditiontype == "<s>"`
deriving DecidableEq, Repr, Inhabited

def CTest.eval : CTest → Option String → Bool
  | .falsy, none => true
  | .falsy, some s => s == ""
  | .eq _, none => false
  | .eq s, some t => s == t

/-- what one branch of the first if-chain of `conditional_gr` does -/
structure Prep where
  castInt : Bool    -- `condition = condition.astype(np.int32)`
  natomSum : Bool   -- `Natom = condition.sum()`
  conj : Bool       -- `conj_condition = np.conj(condition)`   (false: `condition.copy()`)
  norm : Bool       -- `norminator = True`
deriving DecidableEq, Repr, Inhabited

inductive PrepTree
  | leaf (p : Prep)
  | onDtype (t : DTest) (yes no : PrepTree)
  | onCtype (t : CTest) (yes no : PrepTree)
deriving Repr, Inhabited

def PrepTree.eval : PrepTree → DType → Nat → Option String → Prep
  | .leaf p, _, _, _ => p
  | .onDtype t y n, dt, rk, ct => if t.eval dt rk then y.eval dt rk ct else n.eval dt rk ct
  | .onCtype t y n, dt, rk, ct => if t.eval ct then y.eval dt rk ct else n.eval dt rk ct

/-- which array an operand of `SIJ` reads -/
inductive Src | cond | conj      -- `condition` / `conj_condition`
deriving DecidableEq, Repr, Inhabited
/-- which particle: the outer-loop particle `i` or the partner `j > i` (`[i + 1:]`, `[j + i + 1]`) -/
inductive Idx | i | j
deriving DecidableEq, Repr, Inhabited

structure Operand where
  src : Src
  idx : Idx
deriving DecidableEq, Repr, Inhabited

inductive WOp
  | mul     -- `(L * R).real`
  | dot     -- `(L * R[np.newaxis, :]).sum(axis=1).real`
  | trace   -- `np.trace(np.matmul(L, R))` stored into a float array
deriving DecidableEq, Repr, Inhabited

/-- the pair weight `SIJ` of one loop -/
structure Weight where
  op : WOp
  left : Operand
  right : Operand
deriving DecidableEq, Repr, Inhabited

/-- names an arithmetic right-hand side of `conditional_gr` can mention -/
inductive CAtom
  | colR | colGr | colGA | colGAnorm            -- grresults["r" | "gr" | "gA" | "gA_norm"]
  | npart        -- snapshot.nparticle
  | natom        -- Natom
  | prodbox      -- np.prod(snapshot.boxlength)
  | minbox       -- snapshot.boxlength.min()
  | pi           -- np.pi
  | nidealfac    -- nidealfac(ndim)
  | nideal | rhototal | binleft | binright | rdelta
  | meanSquare | squareMean                     -- locals of the normalised variant
  | condMean     -- condition.mean()
  | condSqMean   -- np.square(condition).mean()
deriving DecidableEq, Repr, Inhabited

inductive CExpr
  | atom (a : CAtom)
  | lit (n : Nat)
  | add (x y : CExpr)
  | sub (x y : CExpr)
  | mul (x y : CExpr)
  | div (x y : CExpr)
  | powNdim (x : CExpr)     -- x ** ndim
  | square (x : CExpr)      -- np.square(x)
deriving DecidableEq, Repr, Inhabited

/-- `target = rhs` -/
structure Stmt where
  target : CAtom
  rhs : CExpr
deriving DecidableEq, Repr, Inhabited

/-- everything regenerated from `conditional_gr` -/
structure GrSrc where
  columns : List String            -- the DataFrame created at the top
  maxbinArg : CExpr                -- argument of `int(…)`
  nidealfac : List (Nat × CExpr)   -- `funcs.nidealfac`: `if ndim == n: return e` rows, in source order
  prep : PrepTree                  -- dtype / conditiontype if-chain
  loops : List (CTest × Weight)    -- `if not conditiontype … elif … elif …` (the final `else` raises)
  norm : List Stmt                 -- statements after the loops, in source order
  normIf : List Stmt               -- statements inside `if norminator:`
deriving Repr, Inhabited

/-- first loop whose test accepts `conditiontype`; `none`: the `else` branch (ValueError) -/
def selectLoop : List (CTest × Weight) → Option String → Option Weight
  | [], _ => none
  | (t, w) :: rest, ct => if t.eval ct then some w else selectLoop rest ct

/-! ### conditional_sq vocabulary -/

inductive SqWeight
  | one        -- `np.exp(-1j * thetas)`                       (selected particles)
  | scalar     -- `np.exp(-1j * thetas) * condition[i]`
  | vector     -- `np.exp(-1j * thetas)[:, np.newaxis] * condition[i][np.newaxis, :]`
deriving DecidableEq, Repr, Inhabited

inductive SqDiv | natom | npart      -- `exp_thetas /= sqrt(Natom)` / `sqrt(snapshot.nparticle)`
deriving DecidableEq, Repr, Inhabited

inductive SqRed
  | abs2       -- `(exp_thetas * np.conj(exp_thetas)).real`
  | abs2Sum    -- `(exp_thetas * np.conj(exp_thetas)).sum(axis=1).real`
deriving DecidableEq, Repr, Inhabited

/-- one branch of the if-chain of `conditional_sq` (`test = none`: the final `else`) -/
structure SqBranch where
  test : Option DTest
  select : Bool          -- `Natom = condition.sum()`, `positions = snapshot.positions[condition]`, `range(Natom)`
  weight : SqWeight
  div : SqDiv
  red : SqRed
  fft : List String      -- names of the Fourier-transform columns (`FFT`, or `FFT<i>` per dimension → ["FFT*"])
deriving DecidableEq, Repr, Inhabited

def selectBranch : List SqBranch → DType → Nat → Option SqBranch
  | [], _, _ => none
  | b :: rest, dt, rk =>
    match b.test with
    | none => some b
    | some t => if t.eval dt rk then some b else selectBranch rest dt rk

/-! ### the input -/

/-- the `condition` argument: dtype, `len(shape)`, number of components per particle, the mask (bool dtype) and
the values (for a bool dtype: the 0/1 indicator of the mask) -/
structure Input (α : Type) where
  dtype : DType
  rank : Nat
  m : Nat
  sel : Nat → Bool
  A : Nat → Nat → Cx α

section gr
variable {α : Type} [Add α] [Sub α] [Mul α] [Div α] [Neg α] [OfNat α 0] [IntCast α] [NatCast α]
  [LT α] [LE α] [DecidableLT α] [DecidableLE α]

/-- 0/1 indicator as a (real) complex number -/
def indCx (b : Bool) : Cx α := ⟨Gr.ind b, 0⟩

/-- the values of a boolean mask after `astype(np.int32)` -/
def boolValues (sel : Nat → Bool) : Nat → Nat → Cx α := fun i _ => indCx (sel i)

/-- value of one operand of `SIJ` for the pair (i, j), component c -/
def operand (p : Prep) (A : Nat → Nat → Cx α) (o : Operand) (i j c : Nat) : Cx α :=
  let z := A (match o.idx with | .i => i | .j => j) c
  match o.src with
  | .cond => z
  | .conj => if p.conj then Cx.conj z else z

/-- `SIJ` for the pair (i, j) -/
def Weight.eval (w : Weight) (p : Prep) (d m : Nat) (A : Nat → Nat → Cx α) (i j : Nat) : α :=
  match w.op with
  | .mul => (Cx.mul (operand p A w.left i j 0) (operand p A w.right i j 0)).re
  | .dot => sumRange m fun c => (Cx.mul (operand p A w.left i j c) (operand p A w.right i j c)).re
  | .trace => sumRange d fun a => sumRange d fun b =>
      (Cx.mul (operand p A w.left i j (a * d + b)) (operand p A w.right i j (b * d + a))).re

def CExpr.eval (ndim : Nat) (st : CAtom → α) : CExpr → α
  | .atom a => st a
  | .lit n => (n : α)
  | .add x y => x.eval ndim st + y.eval ndim st
  | .sub x y => x.eval ndim st - y.eval ndim st
  | .mul x y => x.eval ndim st * y.eval ndim st
  | .div x y => x.eval ndim st / y.eval ndim st
  | .powNdim x => Gr.npow (x.eval ndim st) ndim
  | .square x => x.eval ndim st * x.eval ndim st

/-- execute assignments in source order -/
def runStmts (ndim : Nat) : List Stmt → (CAtom → α) → CAtom → α
  | [], st => st
  | s :: rest, st => runStmts ndim rest (fun a => if a = s.target then s.rhs.eval ndim st else st a)

namespace Spec

/-- the pair weight of the property statement: Re(A_i · conj A_j); dot product for vectors; trace of the product
for tensors -/
inductive Kind | bool | real | complex | vector | tensor
deriving DecidableEq, Repr, Inhabited

/-- the quantifier domain of the property: which numpy dtypes carry a condition of this kind … -/
def Kind.dtypes : Kind → List DType
  | .bool => [.bool]
  | .real => [.int64, .float32, .float64]
  | .complex => [.complex64, .complex128]
  | .vector => [.int64, .float32, .float64, .complex64, .complex128]
  | .tensor => [.int64, .float32, .float64]

/-- … with which `len(condition.shape)` … -/
def Kind.rank : Kind → Nat
  | .bool | .real | .complex => 1
  | .vector => 2
  | .tensor => 3

/-- … and which `conditiontype` the documentation prescribes for it (None or the empty string for scalars) -/
def Kind.ctypes : Kind → List (Option String)
  | .bool | .real | .complex => [none, some ""]
  | .vector => [some "vector"]
  | .tensor => [some "tensor"]

def Kind.all : List Kind := [.bool, .real, .complex, .vector, .tensor]

/-- kinds whose values are real numbers whatever the dtype (zero imaginary parts) -/
def Kind.isRealValued (kind : Kind) (dt : DType) : Bool :=
  match kind with
  | .bool | .real | .tensor => true
  | .complex => false
  | .vector => !dt.isComplex

def weight (kind : Kind) (d m : Nat) (A : Nat → Nat → Cx α) (i j : Nat) : α :=
  match kind with
  | .bool | .real | .complex => reMulConj (A i 0) (A j 0)
  | .vector => sumRange m fun c => reMulConj (A i c) (A j c)
  | .tensor => sumRange d fun a => sumRange d fun b => (Cx.mul (A i (a * d + b)) (A j (b * d + a))).re

/-- number of selected particles -/
def count (N : Nat) (sel : Nat → Bool) : Nat := sumRange N fun i => if sel i then 1 else 0

/-- g_A(r_k) = V/n² · (weighted ORDERED-pair histogram in bin k) / shell_k, n = number of particles entering
(the selected ones for a boolean selection, all N otherwise): the normalisation of `Pms.Gr.Spec.gOf` -/
def gA (tr : Gr.Traj α) (bin : Nat → Nat → Nat → Nat → Bool) (kind : Kind) (n : Nat) (m : Nat)
    (A : Nat → Nat → Cx α) (k : Nat) : α :=
  Gr.Spec.V tr / ((n : α) * (n : α)) *
    (Gr.pairHist tr bin (fun _ i j => weight kind tr.d m A i j) k / (tr.T : α)) / Gr.Spec.shell tr k

/-- ⟨A⟩ and ⟨A²⟩ of a real scalar -/
def mean (N : Nat) (A : Nat → Nat → Cx α) : α := (sumRange N fun i => (A i 0).re) / (N : α)
def meanSq (N : Nat) (A : Nat → Nat → Cx α) : α := (sumRange N fun i => (A i 0).re * (A i 0).re) / (N : α)

/-- the normalised scalar variant (g_A − ⟨A⟩²)/(⟨A²⟩ − ⟨A⟩²) -/
def gAnorm (tr : Gr.Traj α) (bin : Nat → Nat → Nat → Nat → Bool) (A : Nat → Nat → Cx α) (k : Nat) : α :=
  (gA tr bin .real tr.N 1 A k - mean tr.N A * mean tr.N A) / (meanSq tr.N A - mean tr.N A * mean tr.N A)

end Spec

namespace Impl

/-- raw `gr` column after the loop (every visited pair counts 1) -/
def rawGr (tr : Gr.Traj α) (bin : Nat → Nat → Nat → Nat → Bool) (k : Nat) : α :=
  Gr.loopHist tr bin (fun _ _ _ => ((1 : Nat) : α)) k

/-- raw `gA` column after the loop -/
def rawGA (tr : Gr.Traj α) (bin : Nat → Nat → Nat → Nat → Bool) (w : Weight) (p : Prep) (m : Nat)
    (A : Nat → Nat → Cx α) (k : Nat) : α :=
  Gr.loopHist tr bin (fun _ i j => w.eval p tr.d m A i j) k

/-- `Natom` -/
def natom (p : Prep) (N : Nat) (A : Nat → Nat → Cx α) : α :=
  if p.natomSum then sumRange N fun i => (A i 0).re else (N : α)

/-- value of `nidealfac(ndim)` from the regenerated rows (0 when no row applies: the real function raises) -/
def nf (S : GrSrc) (d : Nat) : α :=
  match Gr.lookupNat S.nidealfac d with
  | some e => e.eval d (fun _ => (0 : α))
  | none => 0

/-- the state before the normalisation statements, row k.  `nf` = value of `nidealfac(ndim)` -/
def state0 (tr : Gr.Traj α) (nf : α) (p : Prep) (A : Nat → Nat → Cx α) (gr gA : α) (k : Nat) : CAtom → α
  | .colR => 0 | .colGr => gr | .colGA => gA | .colGAnorm => 0
  | .npart => (tr.N : α) | .natom => natom p tr.N A
  | .prodbox => Gr.prodRange tr.d tr.box | .minbox => Gr.minRange tr.d tr.box
  | .pi => tr.pi | .nidealfac => nf | .nideal => 0 | .rhototal => 0
  | .binleft => (k : α) * tr.rdelta | .binright => ((k + 1 : Nat) : α) * tr.rdelta | .rdelta => tr.rdelta
  | .meanSquare => 0 | .squareMean => 0
  | .condMean => Spec.mean tr.N A | .condSqMean => Spec.meanSq tr.N A

/-- the state after all statements -/
def final (S : GrSrc) (tr : Gr.Traj α) (p : Prep) (A : Nat → Nat → Cx α) (gr gA : α) (k : Nat) : CAtom → α :=
  let st1 := runStmts tr.d S.norm (state0 tr (nf S tr.d) p A gr gA k)
  if p.norm then runStmts tr.d S.normIf st1 else st1

/-- row k of the returned frame: (r, gr, gA, gA_norm if the branch sets `norminator`); `none` when
`conditiontype` is rejected (ValueError) -/
def condGr (S : GrSrc) (tr : Gr.Traj α) (bin : Nat → Nat → Nat → Nat → Bool) (x : Input α)
    (ct : Option String) (k : Nat) : Option (α × α × α × Option α) :=
  let p := S.prep.eval x.dtype x.rank ct
  match selectLoop S.loops ct with
  | none => none
  | some w =>
    let st := final S tr p x.A (rawGr tr bin k) (rawGA tr bin w p x.m x.A k) k
    some (st .colR, st .colGr, st .colGA, if p.norm then some (st .colGAnorm) else none)

/-- the argument of `int(…)` in `maxbin = int(snapshot.boxlength.min() / 2.0 / rdelta)` -/
def maxbinArg (S : GrSrc) (tr : Gr.Traj α) : α :=
  S.maxbinArg.eval tr.d (state0 tr 0 ⟨false, false, false, false⟩ (fun _ _ => ⟨0, 0⟩) 0 0 0)

end Impl
end gr

/-! ### conditional S(q) -/
section sq
variable {α : Type} [Add α] [Sub α] [Mul α] [Neg α] [Div α] [OfNat α 0] [NatCast α]

/-- Σ_{i<n} A_i · exp(−iθ_i) for complex A (θ_i enters as `c i = cos θ_i`, `s i = sin θ_i`) -/
def cmode (n : Nat) (A : Nat → Cx α) (c s : Nat → α) : Cx α :=
  ⟨sumRange n fun i => (Cx.mul (phase (c i) (s i)) (A i)).re, sumRange n fun i => (Cx.mul (phase (c i) (s i)) (A i)).im⟩

/-- Σ over the selected particles of exp(−iθ_i) -/
def selmode (n : Nat) (sel : Nat → Bool) (c s : Nat → α) : Cx α :=
  ⟨sumRange n fun i => if sel i then (phase (c i) (s i)).re else 0,
   sumRange n fun i => if sel i then (phase (c i) (s i)).im else 0⟩

def countSel (N : Nat) (sel : Nat → Bool) : Nat := sumRange N fun i => if sel i then 1 else 0

namespace Spec

/-- S_A(q_k) = Σ_components |Σ_i A_i exp(−i q_k·r_i)|² / n  (one component for scalars) -/
def condSq (n : Nat) (N m : Nat) (A : Nat → Nat → Cx α) (c s : Nat → Nat → α) (k : Nat) : α :=
  (sumRange m fun a =>
    let F := cmode N (fun i => A i a) (fun i => c i k) (fun i => s i k)
    reMulConj F F) / (n : α)

end Spec

namespace Impl

/-- `exp_thetas` of wave vector k, component a, after the particle loop -/
def ft (b : SqBranch) (N : Nat) (x : Input α) (c s : Nat → Nat → α) (k a : Nat) : Cx α :=
  match b.weight with
  | .one => if b.select then selmode N x.sel (fun i => c i k) (fun i => s i k)
            else cmode N (fun _ => ⟨((1 : Nat) : α), 0⟩) (fun i => c i k) (fun i => s i k)
  | .scalar => cmode N (fun i => x.A i 0) (fun i => c i k) (fun i => s i k)
  | .vector => cmode N (fun i => x.A i a) (fun i => c i k) (fun i => s i k)

/-- the divisor under the square root -/
def divisor (b : SqBranch) (N : Nat) (x : Input α) : Nat :=
  match b.div with
  | .natom => countSel N x.sel
  | .npart => N

/-- `exp_thetas /= sqrt(…)` -/
def ftNorm (sqrt : α → α) (b : SqBranch) (N : Nat) (x : Input α) (c s : Nat → Nat → α) (k a : Nat) : Cx α :=
  let F := ft b N x c s k a
  let r := sqrt ((divisor b N x : Nat) : α)
  ⟨F.re / r, F.im / r⟩

/-- `sqresults["Sq"]` of wave vector k (before `round(8)` and the group-by); `none`: no branch applies -/
def condSq (branches : List SqBranch) (sqrt : α → α) (N : Nat) (x : Input α) (c s : Nat → Nat → α) (k : Nat) : Option α :=
  match selectBranch branches x.dtype x.rank with
  | none => none
  | some b =>
    some (match b.red with
      | .abs2 => let F := ftNorm sqrt b N x c s k 0; reMulConj F F
      | .abs2Sum => sumRange x.m fun a => let F := ftNorm sqrt b N x c s k a; reMulConj F F)

end Impl
end sq

end Pms.Cond
