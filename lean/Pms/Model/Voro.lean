import Pms.Model.Neigh
import Pms.Gen.Voro
/-!
Model of `PyMatterSim/neighbors/freud_neighbors.py` (`convert_configuration`, `cal_neighbors`, `VolumeMatrix`).

freud's Voronoi tessellation is an external library: it is a PARAMETER here (`Raw` = what
`voro.nlist`, `voro.nlist.weights`, `voro.volumes` returned; `voro : box → points → volumes` for the volume matrix),
constrained only by the hypotheses the theorems state.  Everything around it is modelled step for step:

* `Impl.convert`        — the shift to the box centre, the `boxbounds.sum() != 0` test, the z padding in 2D;
* `Impl.frameRows`      — `np.unique(..., return_counts=True)` and the row walk with the "not sorted" guard;
* `Impl.calNeighbors`   — the three files (token lines), headers per frame / once, id shift, `%.6f` through `fmt`;
* `Impl.vmSelect`       — `list_box[…]`, `list_points[…]`, `points.shape[…]`;
* `Impl.volumeMatrix`   — placement by `condition`, self term, row normalisation; `Impl.transform` — `Aᵀ·M·A`
                          with `M` = whatever `np.linalg.inv` returned (contract parameter).

Every index expression / constant / format precision comes from `Pms/Gen/Voro.lean` (regenerated from the source).
`Spec.*` are the hand-written definitions the property states; they never mention a regenerated term.
The written neighbour file is `Pms.Neigh.render` of the adjacency lists, so the C05 reader model applies verbatim.
-/
namespace Pms.Voro
open Pms Pms.Neigh

/-! ## convert_configuration -/
section Convert
variable {α : Type} [Add α] [Sub α] [Mul α] [Div α] [OfNat α 0] [OfNat α 2] [DecidableEq α]

/-- `snapshot.boxbounds.sum()` (all entries of the (d,2) array) -/
def boundsSum (d : Nat) (lo hi : Nat → α) : α := sumRange d fun k => lo k + hi k

/-- `x <op> 0` for the regenerated operator (only `!=` / `==` make sense without an order) -/
def testZero (op : String) (x : α) : Bool :=
  if op = "NotEq" then decide (x ≠ 0) else if op = "Eq" then decide (x = 0) else false

/-- number of columns of `points` after the padding -/
def Impl.convertWidth (d : Nat) : Nat := if d = Gen.Voro.padDim then d + 1 else d

/-- `points` of one snapshot: `pos i k` = coordinate `k < d` of particle `i` -/
def Impl.convert (d : Nat) (lo hi len : Nat → α) (pos : Nat → Nat → α) : Nat → Nat → α := fun i k =>
  if d = Gen.Voro.padDim ∧ k = d then 0
  else if testZero Gen.Voro.shiftTest (boundsSum d lo hi) then pos i k - Gen.Voro.shiftExpr (lo k) (len k)
  else pos i k

/-- what the property asks for: coordinates relative to the box centre -/
def Spec.centre (lo len : Nat → α) (pos : Nat → Nat → α) : Nat → Nat → α :=
  fun i k => pos i k - (lo k + len k / 2)

end Convert

/-! ## cal_neighbors -/

/-- what freud returned for one frame: `voro.nlist` (0-based pairs), `voro.nlist.weights`, `voro.volumes` -/
structure Raw (α : Type) where
  nlist : List (Nat × Nat)
  weights : List α
  volumes : List α

/-- `np.unique` on natural numbers: the sorted distinct values -/
def uniqueNat (l : List Nat) : List Nat := (List.range (maxCn l + 1)).filter fun a => l.contains a

/-- one particle's output: id, cn, neighbour ids as written, weights, volume -/
structure Row (α : Type) where
  id : Nat
  cn : Nat
  nb : List Nat
  ws : List α
  vol : α

section Cal
variable {α : Type} [OfNat α 0]

/-- the row loop L103-116: `us` = remaining entries of `unique`, `i` the loop index, `nn` the running offset.
`firsts` = `nlist[:, 0]` (for `counts`), `ids` = the shifted pair list. -/
def Impl.walk (ids : List (Nat × Nat)) (w vol : List α) (firsts : List Nat) :
    List Nat → Nat → Nat → Except String (List (Row α))
  | [], _, _ => .ok []
  | atomid :: us, i, nn =>
    if Gen.Voro.guardFails atomid (ids.getD nn (0, 0)).1 i then .error "neighbor list not sorted"
    else
      let cn := Gen.Voro.cnExpr (firsts.count atomid)
      match Impl.walk ids w vol firsts us (i + 1) (nn + cn) with
      | .error e => .error e
      | .ok rest =>
        .ok ({ id := atomid, cn := cn, nb := ((ids.drop nn).take cn).map (·.2), ws := (w.drop nn).take cn,
               vol := vol.getD i 0 } :: rest)

/-- `nlist = np.array(voro.nlist) + 1` -/
def shiftIds (l : List (Nat × Nat)) : List (Nat × Nat) :=
  l.map fun p => (p.1 + Gen.Voro.idShift, p.2 + Gen.Voro.idShift)

/-- one frame: L96-116 -/
def Impl.frameRows (raw : Raw α) : Except String (List (Row α)) :=
  let ids := shiftIds raw.nlist
  let firsts := ids.map (·.1)
  Impl.walk ids raw.weights raw.volumes firsts (uniqueNat firsts) 0 0

def Row.nbLine (r : Row α) : Line := Nat.repr r.id :: Nat.repr r.cn :: r.nb.map Nat.repr
def Row.wLine (fmt : Nat → α → String) (r : Row α) : Line :=
  Nat.repr r.id :: Nat.repr r.cn :: r.ws.map (fmt Gen.Voro.wDecimals)
def Row.oLine (fmt : Nat → α → String) (r : Row α) : Line :=
  [Nat.repr r.id, Nat.repr r.cn, fmt Gen.Voro.volDecimals r.vol]

/-- header of the bond file -/
def bondHeader (ndim : Nat) : Line := if ndim = Gen.Voro.edgeDim then Gen.Voro.hdrEdge else Gen.Voro.hdrFace

/-- the three files -/
structure Files where
  neighbor : Lines
  bond : Lines
  overall : Lines

/-- the frame loop: neighbour and bond headers first thing in every frame -/
def Impl.framesLines (fmt : Nat → α → String) (ndim : Nat) : List (Raw α) → Except String (Lines × Lines × Lines)
  | [] => .ok ([], [], [])
  | raw :: rest =>
    match Impl.frameRows raw with
    | .error e => .error e
    | .ok rows =>
      match Impl.framesLines fmt ndim rest with
      | .error e => .error e
      | .ok (a, b, c) =>
        .ok ((Gen.Voro.hdrNeighbor :: rows.map Row.nbLine) ++ a,
             (bondHeader ndim :: rows.map (Row.wLine fmt)) ++ b,
             rows.map (Row.oLine fmt) ++ c)

/-- `cal_neighbors`: `fmt k x` is `"%.<k>f" % x`.  `.error` = the ValueError of the guard (partially written files
are not modelled). -/
def Impl.calNeighbors (fmt : Nat → α → String) (ndim : Nat) (frames : List (Raw α)) : Except String Files :=
  match Impl.framesLines fmt ndim frames with
  | .error e => .error e
  | .ok (a, b, c) => .ok { neighbor := a, bond := b, overall := Gen.Voro.hdrOverall :: c }

/-! ### Spec: the files as the property states them -/

/-- neighbours of particle `i` as freud lists them (0-based), in list order -/
def adj (raw : Raw α) (i : Nat) : List Nat := (raw.nlist.filter fun p => p.1 = i).map (·.2)

/-- weights of the bonds of particle `i`, aligned with `adj raw i` -/
def adjW (raw : Raw α) (i : Nat) : List α :=
  ((raw.nlist.zip raw.weights).filter fun p => p.1.1 = i).map (·.2)

/-- adjacency table of a frame of `N` particles -/
def adjTable (raw : Raw α) (N : Nat) : List (List Nat) := (List.range N).map (adj raw)

def Spec.neighborFrame (raw : Raw α) (N : Nat) : Lines := render (adjTable raw N)

def Spec.bondFrame (fmt : Nat → α → String) (ndim : Nat) (raw : Raw α) (N : Nat) : Lines :=
  renderTok (bondHeader ndim) ((List.range N).map fun i => (adjW raw i).map (fmt 6))

def Spec.overallRows (fmt : Nat → α → String) (raw : Raw α) (N : Nat) : Lines :=
  (List.range N).map fun i => [Nat.repr (i + 1), Nat.repr (adj raw i).length, fmt 6 (raw.volumes.getD i 0)]

/-- freud's contract as far as the writer needs it (decidable for concrete data): the neighbour list is sorted by
its first index, every particle `0..N-1` has at least one bond and no other index occurs, one weight per bond,
one volume per particle -/
structure WF (raw : Raw α) (N : Nat) : Prop where
  sorted : raw.nlist.Pairwise fun a b => a.1 ≤ b.1
  bound : ∀ p ∈ raw.nlist, p.1 < N
  cover : ∀ i, i < N → ∃ j, (i, j) ∈ raw.nlist
  wlen : raw.weights.length = raw.nlist.length
  vlen : raw.volumes.length = N

/-- the relation written in a neighbour frame: `j+1` appears among the ids on the line of particle `i+1` -/
def fileRel (frame : Lines) (i j : Nat) : Prop := Nat.repr (j + 1) ∈ (frame.getD (i + 1) []).drop 2

end Cal

/-! ## VolumeMatrix -/

/-- `list_box[t]`, `list_points[t]` -/
structure Frame (β α : Type) where
  box : β
  pts : List (List α)

section Select
variable {β α : Type}

/-- L155-157: `(box, points, num_particles)`; `.error` = Python's IndexError -/
def Impl.vmSelect (frames : List (Frame β α)) (nconfig : Nat) : Except String (β × List (List α) × Nat) :=
  match frames[Gen.Voro.vmBoxIndex nconfig]?, frames[Gen.Voro.vmPointsIndex nconfig]? with
  | some fb, some fp =>
    match [fp.pts.length, (fp.pts.headD []).length][Gen.Voro.vmShapeAxis nconfig]? with
    | some n => .ok (fb.box, fp.pts, n)
    | none => .error "IndexError: tuple index out of range"
  | _, _ => .error "IndexError: list index out of range"

end Select

/-- `np.save(a, b)` as called in the source (`args` = the unparsed arguments, `ret` = the name that is returned):
numpy takes the FILE first; `.ok b` = a file is written and `b` says whether it holds the returned array -/
def Impl.saveOutcome (args : List String) (ret : String) : Except String Bool :=
  match args with
  | [f, x] => if f = "outputfile" then .ok (x == ret) else .error "TypeError: np.save(file, arr): not a file name"
  | _ => .error "TypeError: np.save arguments"

section VM
variable {α : Type} [Add α] [Sub α] [Mul α] [Div α] [Neg α] [OfNat α 0] [OfNat α 2]

/-- `matrixA[condition, ndim*i+j] = medium[condition]` with `condition = atomids != i`; `fdv i j k = medium[k]` -/
def Impl.place (ndim : Nat) (fdv : Nat → Nat → Nat → α) (A : Nat → Nat → α) (i j : Nat) : Nat → Nat → α :=
  fun k c => if c = Gen.Voro.vmCol ndim i j ∧ k ≠ i then fdv i j k else A k c

/-- the two perturbation loops L166-183 on `np.zeros` -/
def Impl.offDiag (N ndim : Nat) (fdv : Nat → Nat → Nat → α) : Nat → Nat → α :=
  foldRange N (fun A i => foldRange ndim (fun A j => Impl.place ndim fdv A i j) A) (fun _ _ => 0)

/-- one iteration of L186-188: `medium = matrixA[i].reshape(N, ndim)` is `medium[m, d] = matrixA[i, ndim*m + d]`
(row-major), `medium.sum(axis=0)[d] = Σ_m medium[m, d]` -/
def Impl.selfStep (N ndim : Nat) (A : Nat → Nat → α) (i : Nat) : Nat → Nat → α :=
  fun k c =>
    if k = i ∧ Gen.Voro.vmSelfLo ndim i ≤ c ∧ c < Gen.Voro.vmSelfHi ndim i then
      let s := sumRange N fun m => A i (ndim * m + (c - Gen.Voro.vmSelfLo ndim i))
      if Gen.Voro.selfNeg then -s else s
    else A k c

def Impl.selfTerm (N ndim : Nat) (A : Nat → Nat → α) : Nat → Nat → α :=
  foldRange N (fun A i => Impl.selfStep N ndim A i) A

/-- `matrixA /= original[:, np.newaxis]` -/
def Impl.normalise (orig : Nat → α) (A : Nat → Nat → α) : Nat → Nat → α := fun k c => A k c / orig k

/-- the raw matrix: `V1 i j k` / `V2 i j k` = volume of cell `k` with coordinate `j` of particle `i` moved by ±δ -/
def Impl.volumeMatrix (N ndim : Nat) (V1 V2 : Nat → Nat → Nat → α) (deltar : α) (orig : Nat → α) : Nat → Nat → α :=
  Impl.normalise orig (Impl.selfTerm N ndim
    (Impl.offDiag N ndim fun i j k => Gen.Voro.fd (V1 i j k) (V2 i j k) deltar))

/-- `np.matmul(matrixA, matrixA.T)` -/
def Impl.gram (N ndim : Nat) (A : Nat → Nat → α) : Nat → Nat → α :=
  fun k l => sumRange (N * ndim) fun c => A k c * A l c

/-- `np.matmul(np.matmul(matrixA.T, M), matrixA)` with `M` = the result of `np.linalg.inv` -/
def Impl.transform (N : Nat) (A M : Nat → Nat → α) : Nat → Nat → α :=
  fun r c => sumRange N fun l => (sumRange N fun k => A k r * M k l) * A l c

/-- `points[i, j] = v` -/
def setAt (p : Nat → Nat → α) (i j : Nat) (v : α) : Nat → Nat → α :=
  fun a b => if a = i ∧ b = j then v else p a b

/-- the configurations freud sees for the (i, j) perturbation: after `+= δ`, after `-= 2δ`, after `+= δ` -/
def pertPlus (p : Nat → Nat → α) (i j : Nat) (δ : α) : Nat → Nat → α := setAt p i j (p i j + δ)
def pertMinus (p : Nat → Nat → α) (i j : Nat) (δ : α) : Nat → Nat → α := setAt p i j (p i j + δ - 2 * δ)
def pertBack (p : Nat → Nat → α) (i j : Nat) (δ : α) : Nat → Nat → α := setAt p i j (p i j + δ - 2 * δ + δ)

/-- points as an index function -/
def ptsFn (pts : List (List α)) : Nat → Nat → α := fun a b => (pts.getD a []).getD b 0

/-- `VolumeMatrix(snapshots, ndim, nconfig, deltar, transform_matrix=False)` with freud as the parameter `voro`;
result = (number of rows, matrix).  A boolean mask of the wrong length is numpy's IndexError. -/
def Impl.volumeMatrixOf {β : Type} (voro : β → (Nat → Nat → α) → Nat → α) (frames : List (Frame β α))
    (nconfig ndim : Nat) (δ : α) : Except String (Nat × (Nat → Nat → α)) :=
  match Impl.vmSelect frames nconfig with
  | .error e => .error e
  | .ok (box, pts, n) =>
    if n ≠ pts.length then .error "IndexError: boolean index did not match"
    else
      let p := ptsFn pts
      .ok (n, Impl.volumeMatrix n ndim (fun i j => voro box (pertPlus p i j δ)) (fun i j => voro box (pertMinus p i j δ))
                δ (voro box p))

/-! ### Spec: the matrix as the property states it -/

/-- central finite difference of the volume of cell `k` with respect to coordinate `j` of particle `i` -/
def Spec.fdv (V1 V2 : Nat → Nat → Nat → α) (δ : α) (i j k : Nat) : α := (V1 i j k - V2 i j k) / (2 * δ)

/-- relative volume response: column `ndim*i + j` ↔ coordinate `j` of particle `i`; the self response is minus the
sum of the responses to all other particles (translation invariance) -/
def Spec.matrixA (N ndim : Nat) (V1 V2 : Nat → Nat → Nat → α) (δ : α) (orig : Nat → α) : Nat → Nat → α :=
  fun k c =>
    let i := c / ndim
    let j := c % ndim
    (if k ≠ i then Spec.fdv V1 V2 δ i j k
     else -(sumRange N fun m => if m ≠ k then Spec.fdv V1 V2 δ m j k else 0)) / orig k

/-- `Aᵀ · M · A` -/
def Spec.projector (N : Nat) (A M : Nat → Nat → α) : Nat → Nat → α :=
  fun r c => sumRange N fun k => sumRange N fun l => A k r * M k l * A l c

end VM

end Pms.Voro
