-- DRIVER: boo2d Pms.Boo2d.handlePhi
-- DRIVER: boo2d_tavg Pms.Boo2d.handleTavg
-- DRIVER: boo2d_tcorr Pms.Boo2d.handleTcorr
-- DRIVER: boo2d_scorr Pms.Boo2d.handleScorr
import Pms.Model.Boo2d
import Pms.Model.PbcDriver
import Pms.Model.Io
/-!
Driver operations for C10.  Geometry (minimum image, margins, histogram bins, window length) is
evaluated in exact ℚ; the complex values are evaluated with the SAME polymorphic model
definitions at `Float` / `Cx Float`, because `|d|` needs a square root (odd `l`) and the
separate modulus/phase average needs `atan2`, `cos`, `sin`.
-/
namespace Pms.Boo2d
open Pms Pms.Io

instance : NatCast Float := ⟨Float.ofNat⟩
instance : IntCast Float := ⟨Float.ofInt⟩

abbrev CF := Cx Float

def mkF (x y : Float) : CF := ⟨x, y⟩
def ofRF (x : Float) : CF := ⟨x, 0.0⟩
def conjF (z : CF) : CF := ⟨z.re, -z.im⟩
def absF (z : CF) : Float := Float.sqrt (z.re * z.re + z.im * z.im)
def argF (z : CF) : Float := Float.atan2 z.im z.re
def polarF (r t : Float) : CF := ⟨r * Float.cos t, r * Float.sin t⟩
def piF : Float := 3.141592653589793

/-- `exp(1j*l*arctan2(dy,dx))` evaluated as `((dx+i dy)/|d|)^l`; `arctan2(0,0) = 0` gives 1 -/
def eF (l : Nat) (dx dy : Float) : CF :=
  if dx == 0.0 && dy == 0.0 then 1 else unitPow Float.sqrt mkF l dx dy

def showC (z : CF) : String := showFloat z.re ++ " " ++ showFloat z.im

def minRat (a b : Rat) : Rat := if b < a then b else a

/-- strict tabulation (the `let` of a `do` block is evaluated once; `Pms.memo` partially applied is
re-evaluated on every read by the compiled code, which is only affordable for tiny tables) -/
def tab1 {γ : Type} (n : Nat) (f : Nat → γ) : Array γ := Array.ofFn (n := n) fun i => f i.val
def tab2 {γ : Type} (n m : Nat) (f : Nat → Nat → γ) : Array (Array γ) :=
  Array.ofFn (n := n) fun i => Array.ofFn (n := m) fun j => f i.val j.val
def get1 {γ : Type} [Inhabited γ] (a : Array γ) : Nat → γ := fun i => a.getD i default
def get2 {γ : Type} [Inhabited γ] (a : Array (Array γ)) : Nat → Nat → γ := fun i j => (a.getD i #[]).getD j default

/-- parse `n` complex numbers given as pairs of raw double bits -/
def takeCx (n : Nat) (toks : List String) : Option (Array CF × List String) := do
  let (fs, rest) ← takeMap parseFloatBits (2 * n) toks
  let a := fs.toArray
  pure (Array.ofFn (n := n) (fun i => (⟨a.getD (2 * i.val) 0.0, a.getD (2 * i.val + 1) 0.0⟩ : CF)), rest)

/-- `boo2d l wflag N H[4] ppp[2] pos[2N] rows…` with row = `cn id… (w…)`
→ `margin re im re im …` (margin exact, values as double bits).
margin = min over bonds of the distance of a fractional coordinate from a `rint` tie on a periodic
axis; 0 when a particle has no neighbour or Σ|w| = 0 (the code divides by zero there). -/
def handlePhi (toks : List String) : Option String := do
  let (hd, rest) ← takeMap parseNatDigits 3 toks
  let l := hd.getD 0 0; let wflag := hd.getD 1 0; let N := hd.getD 2 0
  let (hs, rest) ← takeMap parseRat 4 rest
  let (ps, rest) ← takeMap parseRat 2 rest
  let (xs, rest) ← takeMap parseRat (2 * N) rest
  let mut rest := rest
  let mut nlA : Array (Array Nat) := #[]
  let mut wlA : Array (Array Rat) := #[]
  for _ in List.range N do
    let (c, r1) ← takeMap parseNatDigits 1 rest
    let cn := c.headD 0
    let (ids, r2) ← takeMap parseNatDigits cn r1
    nlA := nlA.push ((cn :: ids).toArray)
    if wflag = 1 then
      let (ws, r3) ← takeMap parseRat cn r2
      wlA := wlA.push (((cn : Rat) :: ws).toArray)
      rest := r3
    else
      rest := r2
  if !rest.isEmpty then none
  let H := arrFn2 hs 2
  let HinvA := tab2 2 2 (Pbc.inverse 2 H)
  let Hinv := get2 HinvA
  let ppp := arrFn ps
  let pos := arrFn2 xs 2
  let nl : Nat → Nat → Nat := fun i m => (nlA.getD i #[]).getD m 0
  let wl : Nat → Nat → Rat := fun i m => (wlA.getD i #[]).getD m 0
  let mut margin : Rat := 1
  let mut outs : List String := []
  for i in List.range N do
    let cn := nl i 0
    let bqA := tab2 cn 2 (bonds ratRint H Hinv ppp pos nl i)
    let bq := get2 bqA
    if cn = 0 then margin := 0
    for m in List.range cn do
      let f := Pbc.frac 2 Hinv (fun k => pos (nl i (m+1)) k - pos i k)
      for k in List.range 2 do
        if ppp k ≠ 0 then margin := minRat margin (Pbc.tieMargin (f k))
    let bFA := tab2 cn 2 (fun m k => ratToFloat (bq m k))
    let bF : Nat → Nat → Float := get2 bFA
    let v : CF :=
      if wflag = 1 then
        let w := fun m => wl i (m+1)
        let wF : Nat → Float := fun m => ratToFloat (w m)
        psiW (eF l) ofRF Float.abs cn bF wF
      else psi (eF l) cn bF
    if wflag = 1 then
      if (sumRange cn fun m => Pbc.absRat (wl i (m+1))) = 0 then margin := 0
    outs := showC v :: outs
  pure (showRat margin ++ " " ++ " ".intercalate outs.reverse)

/-- `boo2d_tavg mode T N period dt dstep x[T*N]` → `margin W ids[T-W] values[(T-W)*N]`.
`W = int(period / (dstep*dt))` (exact ℚ; margin = distance of the quotient from an integer, and in
mode 0 (modulus and phase separately) also the distance of every value from the branch cut of
`np.angle`).  ids = `round(n + W/2)` (half-even). -/
def handleTavg (toks : List String) : Option String := do
  let (hd, rest) ← takeMap parseNatDigits 3 toks
  let mode := hd.getD 0 0; let T := hd.getD 1 0; let N := hd.getD 2 0
  let (qs, rest) ← takeMap parseRat 3 rest
  let period := qs.getD 0 0; let dt := qs.getD 1 0; let dstep := qs.getD 2 0
  let (xa, rest) ← takeCx (T * N) rest
  if !rest.isEmpty then none
  if dstep * dt = 0 then none
  let q := period / (dstep * dt)
  let W := window Rat.floor period dt dstep
  let mut margin : Rat := minRat (q - (q.floor : Rat)) ((q.floor : Rat) + 1 - q)
  if W = 0 ∨ T ≤ W then margin := 0
  let x : Nat → Nat → CF := fun n i => xa.getD (n * N + i) 0
  let mut outs : List String := []
  let mut cut : Float := 1.0
  if mode = 0 then
    for z in xa do
      if z.re ≤ 0.0 && Float.abs z.im < cut then cut := Float.abs z.im
  for n in List.range (nAvg T W) do
    for i in List.range N do
      let v : CF := if mode = 1 then timeAvg W x n i
                    else timeAvgSep (α := Float) absF argF polarF W x n i
      outs := showC v :: outs
  let ids := (List.range (nAvg T W)).map fun (n : Nat) => s!"{ratRint ((n : Rat) + (W : Rat) / 2)}"
  pure (showRat margin ++ " " ++ showFloat cut ++ " " ++ s!"{W} " ++ " ".intercalate (ids ++ outs.reverse))

/-- `boo2d_tcorr T N steps[T] x[T*N]` → `linear norm0 time_corr[T]` (double bits; norm0 = Σ_i |x[0,i]|², the guard for `results /= results[0]`).
linear dump (all step differences equal): the double loop; otherwise the log branch
`Re Σ_i conj(x[0,i]) x[n,i] / Re Σ_i |x[0,i]|²`. -/
def handleTcorr (toks : List String) : Option String := do
  let (hd, rest) ← takeMap parseNatDigits 2 toks
  let T := hd.getD 0 0; let N := hd.getD 1 0
  let (st, rest) ← takeMap parseNatDigits T rest
  let (xa, rest) ← takeCx (T * N) rest
  if !rest.isEmpty then none
  let x : Nat → Nat → CF := fun n i => xa.getD (n * N + i) 0
  let sa := st.toArray
  let d0 : Int := (sa.getD 1 0 : Int) - (sa.getD 0 0 : Int)
  let linear := (List.range (T - 1)).all fun n => ((sa.getD (n+1) 0 : Int) - (sa.getD n 0 : Int)) == d0
  let vals : List Float :=
    if linear then
      let acc := get1 (tab1 T (tcorrAcc (α := Float) Cx.re conjF T N x))
      let cnt := get1 (tab1 T (tcorrCnt T))
      (List.range T).map fun k => (acc k / ((cnt k : Nat) : Float)) / (acc 0 / ((cnt 0 : Nat) : Float))
    else
      (List.range T).map fun k => dotRe (α := Float) Cx.re conjF N x k 0 / dotRe (α := Float) Cx.re conjF N x 0 0
  -- guard value: the un-normalised lag-0 value the code divides by (`results /= results[0]`)
  let norm0 : Float := dotRe (α := Float) Cx.re conjF N x 0 0
  pure ((if linear then "1 " else "0 ") ++ showFloat norm0 ++ " " ++ " ".intercalate (vals.map showFloat))

/-- `boo2d_scorr T N rdelta Lx Ly H[4] ppp[2] pos[T*2N] x[T*N]`
→ `margin maxbin (r gr gA)[maxbin]` (double bits).  Bins, minimum image and `maxbin` are decided in
exact ℚ; margin = min(rint ties, |d² − edge²| for the two edges of the pair's bin and the
range end, distance of `min(L)/2/rdelta` from an integer). -/
def handleScorr (toks : List String) : Option String := do
  let (hd, rest) ← takeMap parseNatDigits 2 toks
  let T := hd.getD 0 0; let N := hd.getD 1 0
  let (qs, rest) ← takeMap parseRat 3 rest
  let rdelta := qs.getD 0 0; let Lx := qs.getD 1 0; let Ly := qs.getD 2 0
  let (hs, rest) ← takeMap parseRat 4 rest
  let (ps, rest) ← takeMap parseRat 2 rest
  let (xs, rest) ← takeMap parseRat (T * 2 * N) rest
  let (xa, rest) ← takeCx (T * N) rest
  if !rest.isEmpty then none
  if rdelta ≤ 0 then none
  let H := arrFn2 hs 2
  let HinvA := tab2 2 2 (Pbc.inverse 2 H)
  let Hinv := get2 HinvA
  let ppp := arrFn ps
  let xsA := xs.toArray
  let q := (minRat Lx Ly) / 2 / rdelta
  let maxbin := maxbinOf Rat.floor 2 (minRat Lx Ly) rdelta
  let mut margin : Rat := minRat (q - (q.floor : Rat)) ((q.floor : Rat) + 1 - q)
  let rmax := (maxbin : Rat) * rdelta
  let mut grT : Array (Array Float) := #[]
  let mut gaT : Array (Array Float) := #[]
  for t in List.range T do
    let pos : Nat → Nat → Rat := fun i k => xsA.getD ((t * N + i) * 2 + k) 0
    let x : Nat → CF := fun i => xa.getD (t * N + i) 0
    let d2A := tab2 N N fun i j => norm2 (pairVec ratRint H Hinv ppp pos i j)
    let d2 := get2 d2A
    for i in List.range N do
      for j in List.range N do
        if i < j then
          let f := Pbc.frac 2 Hinv (fun k => pos j k - pos i k)
          for k in List.range 2 do
            if ppp k ≠ 0 then margin := minRat margin (Pbc.tieMargin (f k))
          margin := minRat margin (Pbc.absRat (d2 i j - rmax * rmax))
          for b in List.range maxbin do
            if inBin maxbin rdelta (d2 i j) b then
              let lo := (b : Rat) * rdelta; let hi := ((b + 1 : Nat) : Rat) * rdelta
              margin := minRat margin (minRat (Pbc.absRat (d2 i j - lo * lo)) (Pbc.absRat (d2 i j - hi * hi)))
    let bin : Nat → Nat → Nat → Bool := fun i j b => inBin maxbin rdelta (d2 i j) b
    let sA : Nat → Nat → Float := fun i j => ((x j) * conjF (x i)).re
    grT := grT.push (tab1 maxbin (pairHist (γ := Float) N bin (fun _ _ => 1.0)))
    gaT := gaT.push (tab1 maxbin (pairHist (γ := Float) N bin sA))
  let rdF := ratToFloat rdelta
  let vol := ratToFloat (Lx * Ly)
  let mut outs : List String := []
  for b in List.range maxbin do
    let r := ((b + 1 : Nat) : Float) * rdF - 0.5 * rdF
    let g := frameMean T fun t => grNorm piF rdF vol N (get2 grT t b) b
    let a := frameMean T fun t => grNorm piF rdF vol N (get2 gaT t b) b
    outs := (showFloat r ++ " " ++ showFloat g ++ " " ++ showFloat a) :: outs
  pure (showRat margin ++ s!" {maxbin} " ++ " ".intercalate outs.reverse)

end Pms.Boo2d
