-- DRIVER: dyn Pms.Dyn.handleDyn
-- DRIVER: sq4 Pms.Dyn.handleSq4
import Pms.Model.Dyn
import Pms.Model.PbcDriver
import Pms.Model.Io
/-! Driver operations for C06 (exact ℚ; `cos` evaluated in `Float` and injected back as the exact
dyadic rational the double represents). -/
namespace Pms.Dyn
open Pms Pms.Io

/-- the rational number a finite double denotes -/
def floatToRat (x : Float) : Rat :=
  let b : Nat := x.toBits.toNat
  let sign : Nat := b >>> 63
  let e : Nat := (b >>> 52) % 2048
  let m : Nat := b % (2 ^ 52)
  let big : Nat := (m + 2 ^ 52) * 2 ^ (e - 1075)
  let mm : Nat := m + 2 ^ 52
  let v : Rat :=
    if e = 0 then (m : Rat) / ((2 ^ 1074 : Nat) : Rat)
    else if e ≥ 1075 then (big : Rat)
    else (mm : Rat) / ((2 ^ (1075 - e) : Nat) : Rat)
  if sign = 1 then -v else v

/-- `np.cos` on the model side: libm cosine of the nearest double -/
def ratCos (x : Rat) : Rat := floatToRat (Float.cos (ratToFloat x))
def ratSin (x : Rat) : Rat := floatToRat (Float.sin (ratToFloat x))

def absR (x : Rat) : Rat := if x < 0 then -x else x

/-- parse one neighbour row: `cn id_1 … id_cn` -/
def takeRow (ts : List String) : Option (List Nat × List String) := do
  let (c, rest) ← takeMap parseNatDigits 1 ts
  takeMap parseNatDigits (c.headD 0) rest

def takeRows : Nat → List String → Option (List (List Nat) × List String)
  | 0, ts => some ([], ts)
  | n+1, ts => do
      let (r, rest) ← takeRow ts
      let (rs, rest) ← takeRows n rest
      pure (r :: rs, rest)

/-- exact inverses of all T h-matrices, flat, computed once -/
@[noinline] def invTable (T d : Nat) (ha : Array Rat) : Array Rat := Id.run do
  let mut out : Array Rat := #[]
  for f in List.range T do
    let Hi := Pbc.inverse d (fun i k => ha.getD (f*d*d + i*d + k) 0)
    for i in List.range d do
      for k in List.range d do
        out := out.push (Hi i k)
  return out

structure Parsed where
  X : Traj Rat
  rest : List String

/-- `T N d fast pbc cage ts[T] dt a qconst diam[N] pos[T*N*d] [H[T*d*d] ppp[d]] [nb rows T*N] sel[T*N]` -/
def parseTraj (toks : List String) : Option Parsed := do
  let (hd, rest) ← takeMap parseNatDigits 6 toks
  let T := hd.getD 0 0; let N := hd.getD 1 0; let d := hd.getD 2 0
  let fast := hd.getD 3 0 == 1; let pbc := hd.getD 4 0 == 1; let cage := hd.getD 5 0 == 1
  if d = 0 ∨ d > 3 ∨ T = 0 ∨ N = 0 then none
  let (ts, rest) ← takeMap parseRat T rest
  let (sc, rest) ← takeMap parseRat 3 rest
  let (dm, rest) ← takeMap parseRat N rest
  let (ps, rest) ← takeMap parseRat (T*N*d) rest
  let (hs, pp, rest) ← (if pbc then do
      let (hs, rest) ← takeMap parseRat (T*d*d) rest
      let (pp, rest) ← takeMap parseRat d rest
      pure (hs, pp, rest)
    else pure ([], [], rest) : Option (List Rat × List Rat × List String))
  let (nbs, rest) ← (if cage then takeRows (T*N) rest else pure ([], rest) : Option (List (List Nat) × List String))
  let (sl, rest) ← takeMap parseNatDigits (T*N) rest
  let pa := ps.toArray
  let ha := hs.toArray
  let na := nbs.toArray
  let sa := sl.toArray
  let H : Nat → Nat → Nat → Rat := fun f i k => ha.getD (f*d*d + i*d + k) 0
  let hinv := invTable T d ha
  let X : Traj Rat := {
    T := T, N := N, d := d
    pos := fun f i k => pa.getD (f*N*d + i*d + k) 0
    ts := arrFn ts
    dt := sc.getD 0 0, a := sc.getD 1 0, qconst := sc.getD 2 0
    diam := arrFn dm
    fast := fast, pbc := pbc, cage := cage
    H := H
    Hinv := fun f i k => hinv.getD (f*d*d + i*d + k) 0
    ppp := arrFn pp
    nb := fun f i => na.getD (f*N + i) []
    sel := fun f i => sa.getD (f*N + i) 0 == 1 }
  pure ⟨X, rest⟩

/-- margins over every pair o < e and every particle: distance of dist² from the cutoff (relative to the
cutoff scale), distance of every `rint` argument on a periodic axis from a half-integer; and a
degeneracy flag (empty selection, zero msd, empty neighbour row) where numpy returns nan -/
def margins (X : Traj Rat) : Rat × Rat × Bool := Id.run do
  let mut mc : Rat := 1
  let mut mt : Rat := 1
  let mut deg := false
  for f in List.range X.T do
    if selCount X f == 0 then deg := true
    if X.cage then
      for i in List.range X.N do
        if (X.nb f i).isEmpty then deg := true
  for o in List.range X.T do
    for e in List.range X.T do
      if o < e then
        let p := Fr.spec o e
        let D := (dispTab ratRint X p).get
        if pairR2 X D o == 0 then deg := true
        for i in List.range X.N do
          let c := cut X i
          let m := absR (dist2 X.d D i - c) / (if c < 1 then 1 else c)
          if m < mc then mc := m
          if X.pbc then
            let raw : Nat → Rat := fun k => X.pos e i k - X.pos o i k
            let fr := Pbc.frac X.d (X.Hinv o) raw
            for k in List.range X.d do
              if X.ppp k ≠ 0 then
                let t := Pbc.tieMargin (fr k)
                if t < mt then mt := t
  return (mc, mt, deg)

def showRow (r : Row Rat) : String :=
  joinRat [r.t, r.isf, r.qt, r.x4, r.msd, r.alpha2]

/-- `dyn <impl|spec> <lin|log> <trajectory>` → `marginCut marginTie degenerate rows…` (6 numbers per row, T-1 rows) -/
def handleDyn (toks : List String) : Option String := do
  match toks with
  | mode :: variant :: rest =>
    let ⟨X, rest⟩ ← parseTraj rest
    if !rest.isEmpty then none
    let (mc, mt, deg) := margins X
    let M := selCount X 0
    let interval := X.ts 1 - X.ts 0
    let rows : List (Row Rat) ← (match mode, variant with
      | "impl", "lin" => some ((List.range (X.T - 1)).map (Impl.relaxation ratRint ratCos X))
      | "impl", "log" => some ((List.range (X.T - 1)).map (Impl.logRelaxation ratRint ratCos X))
      | "spec", "lin" => some ((List.range (X.T - 1)).map fun k => Spec.row ratRint ratCos X M interval (k + 1))
      | "spec", "log" => some ((List.range (X.T - 1)).map fun k => Spec.logRow ratRint ratCos X (k + 1))
      | _, _ => none)
    pure (showRat mc ++ " " ++ showRat mt ++ " " ++ (if deg then "1" else "0") ++ " " ++ " ".intercalate (rows.map showRow))
  | _ => none

/-- distinct keys ascending with their member indices -/
def shells (nq : Nat) (key : Nat → Rat) : List (Rat × List Nat) :=
  let ks := ((List.range nq).map key).foldl (fun acc k => if acc.contains k then acc else k :: acc) []
  let sorted := (ks.toArray.qsort (fun a b => a < b)).toList
  sorted.map fun k => (k, (List.range nq).filter fun j => key j == k)

/-- `sq4 <impl|spec> <trajectory> t nq qv[nq*d] L[d] twopidl[d] spos[T*N*d]`
 → `marginCut marginTie degenerate marginLag lag nshells (key qscale Sq)*`;
 key = Σ_k (n_k / L_k)² = (|q| / 2π)² exactly -/
def handleSq4 (toks : List String) : Option String := do
  match toks with
  | mode :: rest =>
    let ⟨X, rest⟩ ← parseTraj rest
    let (tl, rest) ← takeMap parseRat 1 rest
    let (nql, rest) ← takeMap parseNatDigits 1 rest
    let nq := nql.headD 0
    let d := X.d
    let (qs, rest) ← takeMap parseInt (nq*d) rest
    let (Ls, rest) ← takeMap parseRat d rest
    let (tp, rest) ← takeMap parseRat d rest
    let (sp, rest) ← takeMap parseRat (X.T*X.N*d) rest
    if !rest.isEmpty then none
    let qa := qs.toArray
    let spa := sp.toArray
    let La := Ls.toArray
    let Q : Sq4In Rat := {
      qv := fun j k => qa.getD (j*d + k) 0
      twopidl := arrFn tp
      spos := fun f i k => spa.getD (f*X.N*d + i*d + k) 0 }
    let t := tl.headD 0
    let lag := Impl.sq4Lag ratRint X t
    let mlag := Pbc.tieMargin (t / time X 0)
    let (mc, mt, deg0) := margins X
    let key : Nat → Rat := fun j => sumRange d fun k => ((Q.qv j k : Int) : Rat) / La.getD k 1 * (((Q.qv j k : Int) : Rat) / La.getD k 1)
    let mut deg := deg0 || decide (lag ≥ X.T) || decide (t / time X 0 < 0)
    for o in List.range (X.T - lag) do
      let m := Spec.mobileMask ratRint X o (o + lag)
      if ((List.range X.N).filter m).isEmpty then deg := true
    let sh := shells nq key
    let vals : List String ← (match mode with
      | "impl" => some (sh.map fun (k, mem) =>
          showRat k ++ " " ++ showRat (Impl.sq4QScale (α := Rat) X.T lag) ++ " " ++ showRat (Impl.sq4Shell ratRint ratCos ratSin X Q lag mem))
      | "spec" => some (sh.map fun (k, mem) =>
          showRat k ++ " 1 " ++ showRat (Spec.sq4Shell ratRint ratCos ratSin X Q lag mem))
      | _ => none)
    pure (showRat mc ++ " " ++ showRat mt ++ " " ++ (if deg then "1" else "0") ++ " " ++ showRat mlag ++ " "
      ++ toString lag ++ " " ++ toString sh.length ++ " " ++ " ".intercalate vals)
  | _ => none

end Pms.Dyn
