import Pms.Model.Prelude
import Pms.Model.Sph
/-!
Model of `PyMatterSim/static/boo.py::boo_3d` (3-D bond-orientational order), core Lean only.

Two number types: `α` (reals: `Float` in the driver, `ℝ` in the theorems) and `β` (complex numbers:
a pair of `Float`s in the driver, Mathlib's `ℂ` in the theorems).  Everything that connects the two
(`conj`, `re`, `ofReal`, `|z|²`, `√`, `π`, rational constants, `x + iy`) is a field of `Ops`, so the same
definitions are executed at `Float` and reasoned about at ℝ/ℂ.

Inputs of one frame (the parsed tables are INPUT DATA — the reader is C05's business):
* `cn i`      number of neighbours of particle `i` (column 0 of `read_neighbors`)
* `nb i j`    0-based id of the j-th neighbour (columns 1..)
* `w i j`     weight of the j-th bond of particle `i` (parsed weights table, padded with 0)
* `Yv i j k`  `Y_{l,k-l}` of the direction of bond (i, j)  (k = 0..2l, i.e. m = −l..l)
-/
namespace Pms.Boo
open Pms Pms.Sph

structure Ops (α β : Type) where
  conj : β → β
  re : β → α
  ofReal : α → β
  normSq : β → α
  sqrt : α → α
  pi : α
  ofRat : Rat → α
  mkC : α → α → β

section
variable {α β : Type}

/-! ### bond direction → Y_lm (mechanism "theta = arccos(z/r), phi = atan2(y,x)") -/

def powN [Mul β] [OfNat β 1] (x : β) : Nat → β
  | 0 => 1
  | n+1 => powN x n * x

/-- `Y_{l,m}` of the direction of the vector (x,y,z), written with the unit vector only:
`sgn(m) √(N_{l|m|}/π) ((x ± iy)/r)^{|m|} (D^{|m|}P_l)(z/r)`   (`+` for m ≥ 0, `−` for m < 0);
`P a` are the coefficients of `D^a P_l`, `pre a = √(N_{l,a}/π)` (tabulated once by the driver) -/
def bondYWith [Add α] [Mul α] [Div α] [Neg α] [OfNat α 0] [Mul β] [OfNat β 1]
    (o : Ops α β) (P : Nat → List α) (pre : Nat → α) (x y z : α) (m : Int) : β :=
  let r := o.sqrt (x * x + y * y + z * z)
  let a := m.natAbs
  let u : β := o.mkC (x / r) (if m ≥ 0 then y / r else -(y / r))
  o.ofReal (o.ofRat (sgn m) * pre a) * powN u a * o.ofReal (polyEval (P a) (z / r))

def bondY [Add α] [Mul α] [Div α] [Neg α] [OfNat α 0] [Mul β] [OfNat β 1]
    (o : Ops α β) (l : Nat) (x y z : α) (m : Int) : β :=
  bondYWith o (fun a => (legendreD l a).map o.ofRat) (fun a => o.sqrt (o.ofRat (normSq l a) / o.pi)) x y z m

/-! ### q_lm, weighted q_lm, coarse-grained Q_lm  (qlm_Qlm, L117-164) -/

/-- unweighted: accumulate Y over the neighbours, then divide by N_i (L133-136) -/
def qlmImpl [Add β] [Div β] [OfNat β 0] [NatCast β]
    (cn : Nat → Nat) (Yv : Nat → Nat → Nat → β) (i k : Nat) : β :=
  (sumRange (cn i) fun j => Yv i j k) / ((cn i : Nat) : β)

/-- `weightsfrac = weightslist / weightslist.sum(axis=1)` — the row sum runs over ALL `W` parsed columns (L142-143) -/
def wfrac [Add α] [Div α] [OfNat α 0] (W : Nat) (w : Nat → Nat → α) (i j : Nat) : α :=
  w i j / sumRange W (w i)

/-- weighted: accumulate `Y * weightsfrac[i, j]` over the neighbours (L152-154) -/
def qlmWImpl [Add α] [Div α] [OfNat α 0] [Add β] [Mul β] [OfNat β 0]
    (o : Ops α β) (cn : Nat → Nat) (W : Nat) (w : Nat → Nat → α) (Yv : Nat → Nat → Nat → β) (i k : Nat) : β :=
  sumRange (cn i) fun j => Yv i j k * o.ofReal (wfrac W w i j)

/-- coarse graining: copy q_i, add q of every neighbour, divide by 1 + N_i (L158-163) -/
def QlmImpl [Add β] [Div β] [OfNat β 0] [NatCast β]
    (cn : Nat → Nat) (nb : Nat → Nat → Nat) (q : Nat → Nat → β) (i k : Nat) : β :=
  (q i k + sumRange (cn i) fun j => q (nb i j) k) / ((1 + cn i : Nat) : β)

/-! ### q_l  (ql_Ql, L200-201) -/

/-- Σ_m |q_m|² over the 2l+1 components -/
def sumSq [Add α] [OfNat α 0] (o : Ops α β) (L : Nat) (q : Nat → β) : α :=
  sumRange L fun k => o.normSq (q k)

/-- q_l² = 4π/(2l+1) Σ_m |q_lm|² -/
def qlSq [Add α] [Mul α] [Div α] [OfNat α 0] [NatCast α] (o : Ops α β) (l : Nat) (q : Nat → β) : α :=
  ((4 : Nat) : α) * o.pi / (((2 * l + 1 : Nat)) : α) * sumSq o (2 * l + 1) q

def ql [Add α] [Mul α] [Div α] [OfNat α 0] [NatCast α] (o : Ops α β) (l : Nat) (q : Nat → β) : α :=
  o.sqrt (qlSq o l q)

/-! ### s_ij and its thresholded count  (sij_ql_Ql, L247-276) -/

/-- numerator: Re Σ_m q_i,m · conj(q_j,m) -/
def sijUp [Add β] [Mul β] [OfNat β 0] (o : Ops α β) (L : Nat) (qi qj : Nat → β) : α :=
  o.re (sumRange L fun k => qi k * o.conj (qj k))

def vnorm [Add α] [OfNat α 0] (o : Ops α β) (L : Nat) (q : Nat → β) : α := o.sqrt (sumSq o L q)

def sij [Add α] [Mul α] [Div α] [OfNat α 0] [Add β] [Mul β] [OfNat β 0] (o : Ops α β) (L : Nat) (qi qj : Nat → β) : α :=
  sijUp o L qi qj / (vnorm o L qi * vnorm o L qj)

/-- number of bonds of particle i with s_ij > c -/
def sijCount [Add α] [Mul α] [Div α] [OfNat α 0] [LT α] [DecidableLT α] [Add β] [Mul β] [OfNat β 0]
    (o : Ops α β) (L : Nat) (c : α) (cn : Nat → Nat) (nb : Nat → Nat → Nat) (q : Nat → Nat → β) (i : Nat) : Nat :=
  sumRange (cn i) fun j => if c < sij o L (q i) (q (nb i j)) then 1 else 0

/-! ### w_l and ŵ_l  (w_W_cap, L332-351; funcs.Wignerindex) -/

def intRange (lo hi : Int) : List Int := (List.range (hi - lo).toNat).map fun (k : Nat) => lo + (k : Int)

/-- the three nested loops of `Wignerindex` with their `if` -/
def triplesOf (lo hi : Int) (cond : Int → Int → Int → Bool) : List (Int × Int × Int) :=
  (intRange lo hi).flatMap fun m1 => (intRange lo hi).flatMap fun m2 =>
    ((intRange lo hi).filter fun m3 => cond m1 m2 m3).map fun m3 => (m1, m2, m3)

def listSum [Add α] [OfNat α 0] : List α → α
  | [] => 0
  | a :: t => a + listSum t

/-- `(np.real(np.prod(q[Windex], axis=1)) * w3j).sum()` with `Windex = triples + shift` -/
def wImpl [Add α] [Mul α] [OfNat α 0] [Mul β]
    (o : Ops α β) (triples : List (Int × Int × Int)) (w3j : Int → Int → Int → α) (shift : Int) (q : Nat → β) : α :=
  listSum (triples.map fun t =>
    o.re (q (t.1 + shift).toNat * q (t.2.1 + shift).toNat * q (t.2.2 + shift).toNat) * w3j t.1 t.2.1 t.2.2)

/-- `np.power(Σ|q|², -3/2) * w`, written with √ : w / (S·√S) -/
def wcapImpl [Add α] [Mul α] [Div α] [OfNat α 0] (o : Ops α β) (L : Nat) (wv : α) (q : Nat → β) : α :=
  wv / (sumSq o L q * o.sqrt (sumSq o L q))

/-! ### correlations (composition with time_correlation / conditional_gr in their simplest form) -/

/-- `(condition[n] * conj(condition[n-nn])).sum().real` for vector conditions -/
def frameDot [Add β] [Mul β] [OfNat β 0] (o : Ops α β) (N L : Nat) (qa qb : Nat → Nat → β) : α :=
  o.re (sumRange N fun i => sumRange L fun k => qa i k * o.conj (qb i k))

/-- `time_correlation`, linear branch, vector condition: the origin double loop, divided by the counts -/
def tcorrRaw [Add α] [Div α] [OfNat α 0] [NatCast α] [Add β] [Mul β] [OfNat β 0]
    (o : Ops α β) (T N L : Nat) (q : Nat → Nat → Nat → β) (k : Nat) : α :=
  originLoop T (fun n nn => frameDot o N L (q n) (q (n - nn))) (fun _ => 0) k
    / originLoop T (fun _ _ => ((1 : Nat) : α)) (fun _ => 0) k

/-- log branch (non-uniform time steps): correlation with frame 0 only -/
def tcorrLogRaw [Add β] [Mul β] [OfNat β 0] (o : Ops α β) (N L : Nat) (q : Nat → Nat → Nat → β) (k : Nat) : α :=
  frameDot o N L (q k) (q 0)

/-- `time_correlation` normalises by its value at lag 0; `boo_3d.time_corr` then multiplies by 4π/(2l+1)
and divides by the value at lag 0 again -/
def timeCorrImpl [Add α] [Mul α] [Div α] [OfNat α 0] [NatCast α]
    (o : Ops α β) (l : Nat) (raw : Nat → α) (k : Nat) : α :=
  let r1 := fun k => raw k / raw 0
  let r2 := fun k => r1 k * (((4 : Nat) : α) * o.pi / ((2 * l + 1 : Nat) : α))
  r2 k / r2 0

/-- weighted pair histogram over ordered pairs i<j: Σ_{i<j, bin(i,j)=b} wgt i j  (`np.histogram(..., weights=)`) -/
def pairHist [Add α] [OfNat α 0] (N : Nat) (bin : Nat → Nat → Nat) (wgt : Nat → Nat → α) (b : Nat) : α :=
  pairLoop N fun i j => if bin i j = b then wgt i j else 0

/-- `gA` column of conditional_gr (vector branch) for one frame: histogram of Re Σ_m q_j conj(q_i) times 2/N/(nideal·ρ) -/
def gAFrame [Add α] [Mul α] [Div α] [OfNat α 0] [NatCast α] [Add β] [Mul β] [OfNat β 0]
    (o : Ops α β) (N L : Nat) (bin : Nat → Nat → Nat) (q : Nat → Nat → β) (nidealRho : Nat → α) (b : Nat) : α :=
  pairHist N bin (fun i j => sijUp o L (q j) (q i)) b * ((2 : Nat) : α) / ((N : Nat) : α) / nidealRho b

def grFrame [Add α] [Mul α] [Div α] [OfNat α 0] [NatCast α]
    (N : Nat) (bin : Nat → Nat → Nat) (nidealRho : Nat → α) (b : Nat) : α :=
  pairHist N bin (fun _ _ => ((1 : Nat) : α)) b * ((2 : Nat) : α) / ((N : Nat) : α) / nidealRho b

/-- `glresults += …` over the frames, `/= nsnapshots` -/
def frameMean [Add α] [Div α] [OfNat α 0] [NatCast α] (T : Nat) (f : Nat → α) : α :=
  sumRange T f / ((T : Nat) : α)

end
end Pms.Boo
