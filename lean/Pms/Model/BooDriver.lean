-- DRIVER: boo3 Pms.Boo.handleBoo3
-- DRIVER: bootc Pms.Boo.handleBooTc
import Pms.Model.Boo
import Pms.Model.PbcDriver
import Pms.Model.Io
import Pms.Gen.Boo
/-! Driver operations for C09.  Bond vectors are computed in exact ℚ by the C02 model (`removePbc`, with its
`rint` margin); everything downstream runs at `Float` / `Cx` through the SAME polymorphic definitions of
`Pms.Model.Boo` that the theorems are about. -/
namespace Pms.Boo
open Pms Pms.Io Pms.Sph

structure Cx where
  re : Float
  im : Float
deriving Inhabited

instance : Add Cx := ⟨fun a b => ⟨a.re + b.re, a.im + b.im⟩⟩
instance : Mul Cx := ⟨fun a b => ⟨a.re * b.re - a.im * b.im, a.re * b.im + a.im * b.re⟩⟩
instance : Div Cx := ⟨fun a b =>
  let d := b.re * b.re + b.im * b.im
  ⟨(a.re * b.re + a.im * b.im) / d, (a.im * b.re - a.re * b.im) / d⟩⟩
instance : OfNat Cx 0 := ⟨⟨0.0, 0.0⟩⟩
instance : OfNat Cx 1 := ⟨⟨1.0, 0.0⟩⟩
instance : NatCast Cx := ⟨fun n => ⟨Float.ofNat n, 0.0⟩⟩
instance : NatCast Float := ⟨Float.ofNat⟩

def fOps : Ops Float Cx where
  conj z := ⟨z.re, -z.im⟩
  re z := z.re
  ofReal a := ⟨a, 0.0⟩
  normSq z := z.re * z.re + z.im * z.im
  sqrt := Float.sqrt
  pi := 3.141592653589793
  ofRat := ratToFloat
  mkC a b := ⟨a, b⟩

/-- the index triples of `Wignerindex`, from the REGENERATED loop bounds and condition -/
def triples (l : Nat) : List (Int × Int × Int) :=
  let li : Int := l
  (intRange (Pms.Gen.Boo.wLo1 li) (Pms.Gen.Boo.wHi1 li)).flatMap fun m1 =>
    (intRange (Pms.Gen.Boo.wLo2 li) (Pms.Gen.Boo.wHi2 li)).flatMap fun m2 =>
      ((intRange (Pms.Gen.Boo.wLo3 li) (Pms.Gen.Boo.wHi3 li)).filter fun m3 => Pms.Gen.Boo.wCond li m1 m2 m3).map
        fun m3 => (m1, m2, m3)

def fabs (x : Float) : Float := if x < 0.0 then -x else x

def showC (z : Cx) : String := showFloat z.re ++ " " ++ showFloat z.im

/-- per-particle derived quantities of one family (q or Q): ql, sij rows, counts, w, wcap; returns the tokens and
the smallest |s_ij − c| -/
def family (l n : Nat) (c : Float) (cn : Nat → Nat) (nb : Nat → Nat → Nat) (q : Nat → Nat → Cx)
    (tr : List (Int × Int × Int)) (w3j : Int → Int → Int → Float) : List String × Float := Id.run do
  let L := 2 * l + 1
  let mut out : List String := []
  let mut mg : Float := 1.0
  for i in List.range n do
    out := showFloat (ql fOps l (q i)) :: out
  for i in List.range n do
    for j in List.range (cn i) do
      let s := sij fOps L (q i) (q (nb i j))
      out := showFloat s :: out
      if fabs (s - c) < mg then mg := fabs (s - c)
    out := toString (sijCount fOps L c cn nb q i) :: out
  for i in List.range n do
    let wv := wImpl fOps tr w3j (Pms.Gen.Boo.idxShift (l : Int)) (q i)
    out := showFloat wv :: out
    out := showFloat (wcapImpl fOps L wv (q i)) :: out
  return (out.reverse, mg)

/-- `boo3 l c flagW H[9] ppp[3] n pos[3n] (cn_i ids…)×n [W w[n·W]] t3j[(2l+1)²]`
→ `marginRint marginS | qlm[n·L·2] Qlm[n·L·2] family(q) family(Q)` (floats as raw bits) -/
def handleBoo3 (toks : List String) : Option String := do
  let (l1, rest) ← takeMap parseNatDigits 1 toks
  let l := l1.headD 0
  let (c1, rest) ← takeMap parseRat 1 rest
  let c := ratToFloat (c1.headD 0)
  let (fw, rest) ← takeMap parseNatDigits 1 rest
  let flagW := fw.headD 0
  let (hs, rest) ← takeMap parseRat 9 rest
  let (ps, rest) ← takeMap parseRat 3 rest
  let (nl, rest) ← takeMap parseNatDigits 1 rest
  let n := nl.headD 0
  let (xs, rest) ← takeMap parseRat (3 * n) rest
  -- neighbour table
  let mut rest := rest
  let mut cns : List Nat := []
  let mut nbs : List (List Nat) := []
  for _ in List.range n do
    let (c1, r1) ← takeMap parseNatDigits 1 rest
    let k := c1.headD 0
    let (ids, r2) ← takeMap parseNatDigits k r1
    cns := k :: cns
    nbs := ids :: nbs
    rest := r2
  let cnA := cns.reverse.toArray
  let nbA := (nbs.reverse.map List.toArray).toArray
  let cn : Nat → Nat := fun i => cnA.getD i 0
  let nb : Nat → Nat → Nat := fun i j => (nbA.getD i #[]).getD j 0
  -- weights
  let mut W := 0
  let mut wf : Nat → Nat → Float := fun _ _ => 0.0
  if flagW = 1 then
    let (w1, r1) ← takeMap parseNatDigits 1 rest
    W := w1.headD 0
    let (ws, r2) ← takeMap parseRat (n * W) r1
    let wa := (ws.map ratToFloat).toArray
    let W' := W
    wf := fun i j => if j < W' then wa.getD (i * W' + j) 0.0 else 0.0
    rest := r2
  let L := 2 * l + 1
  let (t3, tail) ← takeMap parseFloatBits (L * L) rest
  if !tail.isEmpty then none
  let t3a := t3.toArray
  let li : Int := l
  let w3j : Int → Int → Int → Float := fun m1 m2 m3 =>
    if m1 + m2 + m3 = 0 ∧ -li ≤ m1 ∧ m1 ≤ li ∧ -li ≤ m2 ∧ m2 ≤ li then t3a.getD ((m1 + li).toNat * L + (m2 + li).toNat) 0.0 else 0.0
  -- bonds in exact ℚ (C02 model), rint margin
  let H := arrFn2 hs 3
  let HinvA := Array.ofFn (n := 3) fun i => Array.ofFn (n := 3) fun k => Pms.Pbc.inverse 3 H i.val k.val
  let Hinv : Nat → Nat → Rat := fun i k => (HinvA.getD i #[]).getD k 0
  let ppp := arrFn ps
  let X := arrFn2 xs 3
  let mut margin : Rat := 1
  let mut bonds : Array (Array (Float × Float × Float)) := #[]
  for i in List.range n do
    let mut row : Array (Float × Float × Float) := #[]
    for j in List.range (cn i) do
      let d : Nat → Rat := fun k => X (nb i j) k - X i k
      let b := Pms.Pbc.removePbc 3 ratRint H Hinv ppp d
      let f := Pms.Pbc.frac 3 Hinv d
      for k in List.range 3 do
        if ppp k ≠ 0 then
          let mg := Pms.Pbc.tieMargin (f k)
          if mg < margin then margin := mg
      row := row.push (ratToFloat (b 0), ratToFloat (b 1), ratToFloat (b 2))
    bonds := bonds.push row
  -- Y of every bond, tabulated
  let Pa := Array.ofFn (n := l + 1) fun a => (legendreD l a.val).map ratToFloat
  let prea := Array.ofFn (n := l + 1) fun a => Float.sqrt (ratToFloat (normSq l a.val) / fOps.pi)
  let P : Nat → List Float := fun a => Pa.getD a []
  let pre : Nat → Float := fun a => prea.getD a 0.0
  let Ytab : Array (Array (Array Cx)) := bonds.map fun row => row.map fun (x, y, z) =>
    Array.ofFn (n := L) fun k => bondYWith fOps P pre x y z ((k.val : Int) - li)
  let Yv : Nat → Nat → Nat → Cx := fun i j k => ((Ytab.getD i #[]).getD j #[]).getD k default
  let qraw : Nat → Nat → Cx :=
    if flagW = 1 then fun i k => qlmWImpl fOps cn W wf Yv i k else fun i k => qlmImpl cn Yv i k
  let qA := Array.ofFn (n := n) fun i => Array.ofFn (n := L) fun k => qraw i.val k.val
  let q : Nat → Nat → Cx := fun i k => (qA.getD i #[]).getD k default
  let QA := Array.ofFn (n := n) fun i => Array.ofFn (n := L) fun k => QlmImpl cn nb q i.val k.val
  let Q : Nat → Nat → Cx := fun i k => (QA.getD i #[]).getD k default
  let tr := triples l
  let (fq, m1) := family l n c cn nb q tr w3j
  let (fQ, m2) := family l n c cn nb Q tr w3j
  let mS := if m1 < m2 then m1 else m2
  let qs := (List.range n).flatMap fun i => (List.range L).map fun k => showC (q i k)
  let Qs := (List.range n).flatMap fun i => (List.range L).map fun k => showC (Q i k)
  pure (showRat margin ++ " " ++ showFloat mS ++ " " ++ " ".intercalate (qs ++ Qs ++ fq ++ fQ))

/-- `bootc l mode T N cplx[T·N·L·2]` → the `time_corr` column (T floats); mode 0 = linear, 1 = log -/
def handleBooTc (toks : List String) : Option String := do
  let (hd, rest) ← takeMap parseNatDigits 4 toks
  let l := hd.getD 0 0
  let mode := hd.getD 1 0
  let T := hd.getD 2 0
  let N := hd.getD 3 0
  let L := 2 * l + 1
  let (vs, rest) ← takeMap parseFloatBits (T * N * L * 2) rest
  if !rest.isEmpty then none
  let va := vs.toArray
  let q : Nat → Nat → Nat → Cx := fun t i k =>
    let p := ((t * N + i) * L + k) * 2
    ⟨va.getD p 0.0, va.getD (p + 1) 0.0⟩
  let rawA := Array.ofFn (n := T) fun k => if mode = 0 then tcorrRaw fOps T N L q k.val else tcorrLogRaw fOps N L q k.val
  let raw : Nat → Float := fun k => rawA.getD k 0.0
  pure (" ".intercalate ((List.range T).map fun k => showFloat (timeCorrImpl fOps l raw k)))

end Pms.Boo
