-- DRIVER: vconv Pms.Voro.handleConv
-- DRIVER: vrender Pms.Voro.handleRender
-- DRIVER: vmidx Pms.Voro.handleIdx
-- DRIVER: vmat Pms.Voro.handleMat
import Pms.Model.Voro
import Pms.Model.NeighDriver
import Pms.Model.Io
/-! Driver operations for C20 (exact ℚ; doubles arrive as `num/den`). -/
namespace Pms.Voro
open Pms Pms.Io Pms.Neigh

def absQ (x : Rat) : Rat := if x < 0 then -x else x

/-- `"%.<k>f" % x` on the exact value: half-even rounding of `x·10^k` (what a correctly rounding printf prints) -/
def fmtFixed (k : Nat) (x : Rat) : String :=
  let s := (10 : Nat) ^ k
  let a := (ratRint (x * (s : Rat))).natAbs
  let digits := toString (a % s)
  (if x < 0 then "-" else "") ++ toString (a / s) ++
    (if k = 0 then "" else "." ++ "".pushn '0' (k - digits.length) ++ digits)

/-- `vconv d n lo[d] hi[d] len[d] pos[n*d]` → `|boundsSum| width v[n*width]` -/
def handleConv (toks : List String) : Option String := do
  let (dn, rest) ← takeMap parseNatDigits 2 toks
  let d := dn.headD 0
  let n := dn.getD 1 0
  let (lo, rest) ← takeMap parseRat d rest
  let (hi, rest) ← takeMap parseRat d rest
  let (len, rest) ← takeMap parseRat d rest
  let (ps, rest) ← takeMap parseRat (n * d) rest
  if !rest.isEmpty then none
  let pos := arrFn2 ps d
  let w := Impl.convertWidth d
  let c := Impl.convert d (arrFn lo) (arrFn hi) (arrFn len) pos
  let vals := (List.range n).flatMap fun i => (List.range w).map fun k => c i k
  pure (showRat (absQ (boundsSum d (arrFn lo) (arrFn hi))) ++ " " ++ toString w ++ " " ++ joinRat vals)

/-- one frame: `nb (i j)*nb w*nb N vol*N` -/
def parseRaw (toks : List String) : Option (Raw Rat × List String) := do
  let (nbl, rest) ← takeMap parseNatDigits 1 toks
  let nb := nbl.headD 0
  let (ps, rest) ← takeMap parseNatDigits (2 * nb) rest
  let (ws, rest) ← takeMap parseRat nb rest
  let (nl, rest) ← takeMap parseNatDigits 1 rest
  let (vs, rest) ← takeMap parseRat (nl.headD 0) rest
  let a := ps.toArray
  let pairs := (List.range nb).map fun t => (a.getD (2 * t) 0, a.getD (2 * t + 1) 0)
  pure ({ nlist := pairs, weights := ws, volumes := vs }, rest)

def parseRaws : Nat → List String → Option (List (Raw Rat) × List String)
  | 0, ts => some ([], ts)
  | n + 1, ts => do
    let (r, rest) ← parseRaw ts
    let (rs, rest) ← parseRaws n rest
    pure (r :: rs, rest)

/-- `vrender ndim T frame*T` → `ok <neighbor> || <bond> || <overall>` (lines joined by ` | `) or `err <message>` -/
def handleRender (toks : List String) : Option String := do
  let (nt, rest) ← takeMap parseNatDigits 2 toks
  let (frames, rest) ← parseRaws (nt.getD 1 0) rest
  if !rest.isEmpty then none
  match Impl.calNeighbors fmtFixed (nt.headD 0) frames with
  | .error e => pure ("err " ++ e)
  | .ok f => pure ("ok " ++ showLines f.neighbor ++ " || " ++ showLines f.bond ++ " || " ++ showLines f.overall)

def showSave (r : Except String Bool) : String :=
  match r with
  | .ok true => "saved"
  | .ok false => "saved-other"
  | .error _ => "raises"

/-- `vmidx nconfig T (rows cols)*T` → `ok boxIndex pointsIndex num_particles saveRaw saveTrans` | `err <message>`
(`saveRaw` / `saveTrans` ∈ saved | saved-other | raises: what the `np.save` call of that branch does) -/
def handleIdx (toks : List String) : Option String := do
  let (ct, rest) ← takeMap parseNatDigits 2 toks
  let nconfig := ct.headD 0
  let T := ct.getD 1 0
  let (sh, rest) ← takeMap parseNatDigits (2 * T) rest
  if !rest.isEmpty then none
  let a := sh.toArray
  let frames : List (Frame Nat Rat) := (List.range T).map fun t =>
    { box := t, pts := List.replicate (a.getD (2 * t) 0) (List.replicate (a.getD (2 * t + 1) 0) 0) }
  match Impl.vmSelect frames nconfig with
  | .error e => pure ("err " ++ e)
  | .ok (b, pts, n) =>
    if n ≠ pts.length then pure "err IndexError: boolean index did not match"
    else pure (s!"ok {b} {Gen.Voro.vmPointsIndex nconfig} {n} " ++
      showSave (Impl.saveOutcome Gen.Voro.vmSaveRaw Gen.Voro.vmRetRaw) ++ " " ++
      showSave (Impl.saveOutcome Gen.Voro.vmSaveTrans Gen.Voro.vmRetTrans))

/-- `vmat mode N ndim transform δ V1[N*ndim*N] V2[N*ndim*N] orig[N] (M[N*N])` with `V1[(i*ndim+j)*N+k]`
→ `rows cols maxRowSum(exact) bits[rows*cols]`; mode `impl` = `Impl.volumeMatrix`/`Impl.transform`,
mode `spec` = `Spec.matrixA`/`Spec.projector` (hand-written, no regenerated term) -/
def handleMat (toks : List String) : Option String := do
  let mode ← toks.head?
  let (nl, rest) ← takeMap parseNatDigits 3 (toks.drop 1)
  let N := nl.headD 0
  let ndim := nl.getD 1 0
  let tr := nl.getD 2 0
  let (dl, rest) ← takeMap parseRat 1 rest
  let δ := dl.headD 0
  let (v1, rest) ← takeMap parseRat (N * ndim * N) rest
  let (v2, rest) ← takeMap parseRat (N * ndim * N) rest
  let (og, rest) ← takeMap parseRat N rest
  let (ml, rest) ← takeMap parseRat (if tr = 1 then N * N else 0) rest
  if !rest.isEmpty then none
  let a1 := v1.toArray
  let a2 := v2.toArray
  let V1 : Nat → Nat → Nat → Rat := fun i j k => a1.getD ((i * ndim + j) * N + k) 0
  let V2 : Nat → Nat → Nat → Rat := fun i j k => a2.getD ((i * ndim + j) * N + k) 0
  let orig := arrFn og
  let cols := N * ndim
  let f : Nat → Nat → Rat ←
    match mode with
    | "impl" => some (Impl.volumeMatrix N ndim V1 V2 δ orig)
    | "spec" => some (Spec.matrixA N ndim V1 V2 δ orig)
    | _ => none
  let tabA : Array Rat := Array.ofFn (n := N * cols) fun ix => f (ix.val / cols) (ix.val % cols)
  let A : Nat → Nat → Rat := fun k c => tabA.getD (k * cols + c) 0
  let (rows, X) : Nat × (Nat → Nat → Rat) :=
    if tr = 1 then
      let M := arrFn2 ml N
      let P : Nat → Nat → Rat := if mode = "impl" then Impl.transform N A M else Spec.projector N A M
      let tabP : Array Rat := Array.ofFn (n := cols * cols) fun ix => P (ix.val / cols) (ix.val % cols)
      (cols, fun r c => tabP.getD (r * cols + c) 0)
    else (N, A)
  let mut mx : Rat := 0
  for r in List.range rows do
    for d in List.range ndim do
      let s := absQ (sumRange N fun i => X r (ndim * i + d))
      if s > mx then mx := s
  let vals := (List.range rows).flatMap fun r => (List.range cols).map fun c => showFloat (ratToFloat (X r c))
  pure (s!"{rows} {cols} {showRat mx} " ++ " ".intercalate vals)

end Pms.Voro
