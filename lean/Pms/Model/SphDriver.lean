-- DRIVER: sph Pms.Sph.handleSph
import Pms.Model.Sph
import Pms.Model.Io
import Pms.Gen.Sph
/-! Driver op for C08: evaluate the regenerated table numerically (translator validation). -/
namespace Pms.Sph
open Pms.Io

def ratF (r : Rat) : Float := Float.ofInt r.num / Float.ofNat r.den

def Entry.evalF (e : Entry) (θ φ : Float) : Float × Float :=
  let pre := ratF e.c * Float.sqrt (ratF e.s / 3.141592653589793)
  let sn := Float.pow (Float.sin θ) (Float.ofNat e.k)
  let sn := if e.k = 0 then 1.0 else sn
  let pv := polyEval (e.p.map ratF) (Float.cos θ)
  let a := Float.ofInt e.m * φ
  (pre * sn * pv * Float.cos a, pre * sn * pv * Float.sin a)

/-- `sph l θ φ` (float bits) → `re im re im …` (bits) for the row of degree l -/
def handleSph (toks : List String) : Option String := do
  match toks with
  | [ls, ts, ps] =>
    let l ← parseNatDigits ls
    let θ ← parseFloatBits ts
    let φ ← parseFloatBits ps
    let row ← (Pms.Gen.Sph.table.find? (·.1 == l)).map (·.2)
    pure (" ".intercalate (row.map fun e => let (a, b) := e.evalF θ φ; s!"{showFloat a} {showFloat b}"))
  | _ => none

end Pms.Sph
