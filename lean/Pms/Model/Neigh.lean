import Pms.Model.Pbc
import Pms.Gen.Neigh
/-!
Model of `PyMatterSim/neighbors/calculate_neighbors.py` (Nnearests, cutoffneighbors,
cutoffneighbors_particletype) and `PyMatterSim/neighbors/read_neighbors.py` (read_neighbors).

API for other properties (C09, C10, C16, C20 read neighbour files):

* `Line`  = tokens of one text line (`str.split()`), `Lines` = the open file handle = remaining lines;
* `render fr`                — what the writers emit for one frame whose particle `i` has the 0-based
                               neighbour list `fr[i]` (header line + one line per particle);
* `renderTok hdr fr`         — the same for arbitrary value tokens (weights files);
* `Impl.readNeighbors pNum f nparticle Nmax : Table α × Lines` — one call of `read_neighbors`;
* `Impl.readFrames pNum f nparticle [Nmax₁, Nmax₂, …]`          — successive calls on one handle;
* `Spec.expectedTable Nmax fr : Table α` — cn, neighbours, zero padding to the largest cn, truncation.

Distances are compared on their squares (`np.linalg.norm` is monotone in the sum of squares).
`np.argpartition` / `argsort` are parameters (`apart`, `asort`) with contracts stated in
`Pms/Lemmas/Neigh.lean`; the driver instantiates them with a stable merge sort.
-/
namespace Pms.Neigh
open Pms Pms.Pbc

abbrev Line := List String
abbrev Lines := List Line
abbrev Table (α : Type) := List (List α)

/-! ## geometry -/
section Geometry
variable {α : Type} [Add α] [Sub α] [Mul α] [OfNat α 0] [IntCast α]

/-- squared minimum-image distance: `|remove_pbc(positions[j] - positions[i], hmatrix, ppp)|²` -/
def dist2 (d : Nat) (rint : α → Int) (H Hinv : Nat → Nat → α) (ppp : Nat → α)
    (pos : Nat → Nat → α) (i j : Nat) : α :=
  let v := removePbc d rint H Hinv ppp (fun k => pos j k - pos i k)
  sumRange d fun k => v k * v k

end Geometry

/-! ## selection and ordering (keys are squared distances from the centre) -/
section Select
variable {α : Type} [LE α] [DecidableLE α]

/-- canonical index sort used by the driver for `argsort` and `argpartition`: stable merge sort -/
def sortBy (key : Nat → α) (l : List Nat) : List Nat :=
  l.mergeSort (fun a b => decide (key a ≤ key b))

/-- driver instance of `np.argpartition(key, kth)`: the fully sorted permutation -/
def apartSort (key : Nat → α) (n _kth : Nat) : List Nat := sortBy key (List.range n)

/-- `Nnearests` L61-70 for one centre with the source's constants as parameters, 0-based result (before
the id offset): `np.argpartition(RIJ_norm, kth)[:tk]` → `nearests[RIJ_norm[nearests].argsort()]` → `[dr:]`.
`none` = `ValueError: kth out of bounds` (numpy requires `kth < nparticle`). -/
def Impl.nnearestGen (kth tk dr : Nat) (apart : (Nat → α) → Nat → Nat → List Nat)
    (asort : (Nat → α) → List Nat → List Nat) (key : Nat → α) (n : Nat) : Option (List Nat) :=
  if kth < n then
    let nearests := (apart key n kth).take tk
    let nearests := asort key nearests
    some (nearests.drop dr)
  else none

/-- … with the constants REGENERATED from the source (`Pms/Gen/Neigh.lean`) -/
def Impl.nnearest0 (apart : (Nat → α) → Nat → Nat → List Nat) (asort : (Nat → α) → List Nat → List Nat)
    (key : Nat → α) (n N : Nat) : Option (List Nat) :=
  Impl.nnearestGen (Gen.Neigh.nnKth N) (Gen.Neigh.nnTake N) Gen.Neigh.nnDrop apart asort key n

/-- `cutoffneighbors` L121-128 / `cutoffneighbors_particletype` L195-202 for one centre, 0-based:
`neighbor[mask]` (ascending indices) → CN = len − cnMinus → argsort by distance → `[dr:]` -/
def Impl.cutoffGen (cnMinus dr : Nat) (asort : (Nat → α) → List Nat → List Nat) (key : Nat → α)
    (within : Nat → Bool) (n : Nat) : Nat × List Nat :=
  let nearests := (List.range n).filter within
  let cn := nearests.length - cnMinus
  let nearests := asort key nearests
  (cn, nearests.drop dr)

/-- the global-cutoff routine with its regenerated constants -/
def Impl.cutoff0 (asort : (Nat → α) → List Nat → List Nat) (key : Nat → α) (within : Nat → Bool)
    (n : Nat) : Nat × List Nat :=
  Impl.cutoffGen Gen.Neigh.cutCnMinus Gen.Neigh.cutDrop asort key within n

/-- the type-pair routine with its regenerated constants -/
def Impl.cutoffT0 (asort : (Nat → α) → List Nat → List Nat) (key : Nat → α) (within : Nat → Bool)
    (n : Nat) : Nat × List Nat :=
  Impl.cutoffGen Gen.Neigh.ctypeCnMinus Gen.Neigh.ctypeDrop asort key within n

/-- global cutoff mask `RIJ_norm <= r_cut`, decided on squares (r_cut ≥ 0) -/
def withinGlobal (key : Nat → α) (rc2 : α) : Nat → Bool := fun j => decide (key j ≤ rc2)

/-- type-pair mask `(RIJ_norm - cutoffs[type[i]-1]) <= 0` with `cutoffs[a][j] = r_cut[a][type[j]-1]`:
row by the centre's type, column by the neighbour's type (types are 1-based) -/
def withinType (key : Nat → α) (rc2 : Nat → Nat → α) (ty : Nat → Nat) (i : Nat) : Nat → Bool :=
  fun j => decide (key j ≤ rc2 (ty i - 1) (ty j - 1))

end Select

/-! ### Spec: the lists as the property states them -/
section SpecLists
variable {α : Type} [LT α]

/-- `L` is the N-nearest list of centre `i` among particles `0..n-1` with distance keys `key`:
exactly `N` other particles, every listed one strictly closer than every other one left out,
ordered by increasing distance, never the particle itself. -/
structure Spec.IsNNearest (key : Nat → α) (n i N : Nat) (L : List Nat) : Prop where
  length : L.length = N
  nodup : L.Nodup
  mem : ∀ j ∈ L, j < n ∧ j ≠ i
  sorted : L.Pairwise (fun a b => key a < key b)
  closest : ∀ j, j < n → j ≠ i → j ∉ L → ∀ m ∈ L, key m < key j

/-- `L` is the cutoff list of centre `i`: exactly the other particles satisfying `within`,
ordered by increasing distance. -/
structure Spec.IsCutoffList (key : Nat → α) (within : Nat → Prop) (n i : Nat) (L : List Nat) : Prop where
  mem : ∀ j, j ∈ L ↔ (j < n ∧ j ≠ i ∧ within j)
  nodup : L.Nodup
  sorted : L.Pairwise (fun a b => key a < key b)

end SpecLists

/-! ## the file: what the writers emit -/

def header : Line := ["id", "cn", "neighborlist"]

/-- one particle line: id (1-based), cn, value tokens -/
def rowLine (i : Nat) (toks : List String) : Line :=
  Nat.repr (i + 1) :: Nat.repr toks.length :: toks

/-- particle lines for ids `s+1, s+2, …` -/
def renderRows : Nat → List (List String) → Lines
  | _, [] => []
  | s, toks :: rest => rowLine s toks :: renderRows (s + 1) rest

/-- a frame with arbitrary value tokens under header `hdr` -/
def renderTok (hdr : Line) (fr : List (List String)) : Lines := hdr :: renderRows 0 fr

/-- value tokens of a 0-based neighbour list written with id offset `off` -/
def idToksOff (off : Nat) (nb : List Nat) : List String := nb.map fun j => Nat.repr (j + off)

/-- the file format: ids are written 1-based -/
def idToks (nb : List Nat) : List String := idToksOff 1 nb

/-- a neighbour-list frame: `fr[i]` = 0-based neighbours of particle `i`, nearest first -/
def render (fr : List (List Nat)) : Lines := renderTok header (fr.map idToks)

section Writers
variable {α : Type} [LE α] [DecidableLE α]

/-- 0-based lists of one snapshot (what the writers put after the cn column, minus 1) -/
def Impl.nnearestLists (apart : (Nat → α) → Nat → Nat → List Nat) (asort : (Nat → α) → List Nat → List Nat)
    (key : Nat → Nat → α) (n N : Nat) : List (List Nat) :=
  (List.range n).map fun i => (Impl.nnearest0 apart asort (key i) n N).getD []

def Impl.cutoffLists (asort : (Nat → α) → List Nat → List Nat) (key : Nat → Nat → α) (rc2 : α) (n : Nat) :
    List (List Nat) :=
  (List.range n).map fun i => (Impl.cutoff0 asort (key i) (withinGlobal (key i) rc2) n).2

def Impl.cutoffTypeLists (asort : (Nat → α) → List Nat → List Nat) (key : Nat → Nat → α)
    (rc2 : Nat → Nat → α) (ty : Nat → Nat) (n : Nat) : List (List Nat) :=
  (List.range n).map fun i => (Impl.cutoffT0 asort (key i) (withinType (key i) rc2 ty i) n).2

/-- `Nnearests` for one snapshot: lines of the file, `none` when numpy raises.  `key i j` = squared distance -/
def Impl.nnearestFrame (apart : (Nat → α) → Nat → Nat → List Nat) (asort : (Nat → α) → List Nat → List Nat)
    (key : Nat → Nat → α) (n N : Nat) : Option Lines :=
  if Gen.Neigh.nnKth N < n then
    some (header :: (List.range n).map fun i =>
      Nat.repr (i + 1) :: Nat.repr (Gen.Neigh.nnCn N) ::
        idToksOff Gen.Neigh.nnIdOff ((Impl.nnearest0 apart asort (key i) n N).getD []))
  else none

/-- `cutoffneighbors` for one snapshot.  (CN column = len(mask) − 1 = number of ids written.) -/
def Impl.cutoffFrame (asort : (Nat → α) → List Nat → List Nat) (key : Nat → Nat → α) (rc2 : α) (n : Nat) : Lines :=
  header :: (List.range n).map fun i =>
    let r := Impl.cutoff0 asort (key i) (withinGlobal (key i) rc2) n
    Nat.repr (i + 1) :: Nat.repr r.1 :: idToksOff Gen.Neigh.cutIdOff r.2

/-- `cutoffneighbors_particletype` for one snapshot -/
def Impl.cutoffTypeFrame (asort : (Nat → α) → List Nat → List Nat) (key : Nat → Nat → α)
    (rc2 : Nat → Nat → α) (ty : Nat → Nat) (n : Nat) : Lines :=
  header :: (List.range n).map fun i =>
    let r := Impl.cutoffT0 asort (key i) (withinType (key i) rc2 ty i) n
    Nat.repr (i + 1) :: Nat.repr r.1 :: idToksOff Gen.Neigh.ctypeIdOff r.2

end Writers

/-! ## the file: `read_neighbors` -/
section Reader
variable {α : Type} [Sub α] [OfNat α 0] [OfNat α 1] [NatCast α]

/-- zero padding on the right up to width `w` (`np.zeros` rows that are only partly assigned) -/
def padTo (w : Nat) (l : List α) : List α := l ++ List.replicate (w - l.length) 0

/-- `"neighborlist" in header` -/
def isNeighborList (hdr : Line) : Bool := hdr.contains "neighborlist"

/-- conversion of a value token: `float(j) - 1` for neighbour lists, `float(j)` otherwise -/
def conv (pNum : String → α) (isNl : Bool) : String → α :=
  fun s => if isNl then pNum s - 1 else pNum s

/-- one data line (L49-73): `(atom_index, k, values padded to Nmax)` where `k` is what goes to column 0.
`int()` is `String.toNat?` (ids and cn are non-negative in a well-formed file). -/
def Impl.readRow (pNum : String → α) (isNl : Bool) (Nmax : Nat) (item : Line) : Nat × Nat × List α :=
  let atomIndex := ((item.getD 0 "").toNat?.getD 0) - 1
  let cn := (item.getD 1 "").toNat?.getD 0
  if cn ≤ Nmax then
    (atomIndex, cn, padTo Nmax (((item.drop 2).take cn).map (conv pNum isNl)))
  else
    (atomIndex, Nmax, padTo Nmax (((item.drop 2).take Nmax).map (conv pNum isNl)))

/-- `neighborprop[atom_index] = …` -/
def updRow {β : Type} (tbl : Nat → β) (k : Nat) (v : β) : Nat → β := fun j => if j = k then v else tbl j

/-- the table after the loop over `m` data lines -/
def Impl.readLoop (pNum : String → α) (isNl : Bool) (Nmax : Nat) (body : Lines) (m : Nat) :
    Nat → Nat × List α :=
  foldRange m (fun tbl i =>
      let r := Impl.readRow pNum isNl Nmax (body.getD i [])
      updRow tbl r.1 r.2)
    (fun _ => (0, List.replicate Nmax 0))

/-- `int(neighborprop[:, 0].max())` -/
def maxCn (ks : List Nat) : Nat := ks.foldl max 0

/-- one call `read_neighbors(f, nparticle, Nmax)`: returned array and the advanced file handle -/
def Impl.readNeighbors (pNum : String → α) (f : Lines) (nparticle Nmax : Nat) : Table α × Lines :=
  let hdr := f.headD []
  let isNl := isNeighborList hdr
  let body := f.drop 1
  let tbl := Impl.readLoop pNum isNl Nmax body nparticle
  let ents := (List.range nparticle).map tbl
  let mx := maxCn (ents.map (·.1))
  let rows : Table α :=
    if mx < Nmax then ents.map fun e => (e.1 : α) :: e.2.take mx
    else ents.map fun e => (e.1 : α) :: e.2
  (rows, body.drop nparticle)

/-- successive calls on one open file, one `Nmax` per call -/
def Impl.readFrames (pNum : String → α) (f : Lines) (nparticle : Nat) : List Nat → List (Table α) × Lines
  | [] => ([], f)
  | Nmax :: ms =>
    let r := Impl.readNeighbors pNum f nparticle Nmax
    let rs := Impl.readFrames pNum r.2 nparticle ms
    (r.1 :: rs.1, rs.2)

/-- decidable well-formedness of the next frame (otherwise the Python code raises or mis-assigns):
header present, `nparticle` data lines, ids a valid 1-based index, exactly `cn` value tokens -/
def frameOk (f : Lines) (nparticle : Nat) : Bool :=
  f.length ≥ nparticle + 1 && nparticle ≥ 1 &&
  ((f.drop 1).take nparticle).all fun item =>
    match (item.getD 0 "").toNat?, (item.getD 1 "").toNat? with
    | some id, some cn => 1 ≤ id && id ≤ nparticle && item.length == cn + 2
    | _, _ => false

/-! ### Spec: the returned table as the property states it -/

/-- expected row for value list `vals` (already converted): k = min(cn, Nmax), the first k values,
zero padding to width `w` -/
def Spec.expectedRow (Nmax w : Nat) (vals : List α) : List α :=
  let k := min vals.length Nmax
  (k : α) :: padTo w (vals.take k)

/-- largest (truncated) coordination number of a frame -/
def Spec.width {β : Type} (Nmax : Nat) (fr : List (List β)) : Nat :=
  maxCn (fr.map fun vals => min vals.length Nmax)

/-- expected table of a frame given as converted values per particle (id order) -/
def Spec.expectedVals (Nmax : Nat) (fr : List (List α)) : Table α :=
  fr.map (Spec.expectedRow Nmax (Spec.width Nmax fr))

/-- expected table of a neighbour-list frame: cn, zero-based neighbour indices, padding, truncation -/
def Spec.expectedTable (Nmax : Nat) (fr : List (List Nat)) : Table α :=
  Spec.expectedVals Nmax (fr.map fun nb => nb.map fun (j : Nat) => (j : α))

end Reader

end Pms.Neigh
