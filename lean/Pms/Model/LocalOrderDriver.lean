-- DRIVER: s2 Pms.LocalOrder.handleS2
-- DRIVER: tetra Pms.LocalOrder.handleTetra
-- DRIVER: nematic Pms.LocalOrder.handleNematic
-- DRIVER: gyr Pms.LocalOrder.handleGyr
import Pms.Model.LocalOrder
import Pms.Model.PbcDriver
import Pms.Model.Io
/-!
Driver operations for C17.  Geometry (minimum image, squared distances, every discrete decision:
`rint`, the `distance < rmax` mask, the choice of the four nearest) is evaluated in exact ℚ; the
transcendental part (`exp`, `log`, `sqrt`, `log10`, eigenvalues) evaluates the SAME polymorphic model
definitions at `Float`.
-/
namespace Pms.LocalOrder
open Pms Pms.Io Pms.Pbc

instance : NatCast Float := ⟨Float.ofNat⟩

def fpi : Float := 3.141592653589793

def minRat (a b : Rat) : Rat := if b < a then b else a

/-- tabulate into an array VALUE (bound in a `do` block it is computed once) -/
def tab {β : Type} (n : Nat) (f : Nat → β) : Array β := Array.ofFn (n := n) fun i => f i.val
def look {β : Type} [Inhabited β] (a : Array β) : Nat → β := fun i => a.getD i default
def tab2 {β : Type} (n m : Nat) (f : Nat → Nat → β) : Array β := Array.ofFn (n := n * m) fun i => f (i.val / m) (i.val % m)
def look2 {β : Type} [Inhabited β] (a : Array β) (m : Nat) : Nat → Nat → β := fun i j => a.getD (i * m + j) default

/-- exact minimum-image displacements `i → j` for all pairs, with the smallest rint-tie margin -/
def allDisp (d N : Nat) (H : Nat → Nat → Rat) (ppp : Nat → Rat) (pos : Nat → Nat → Rat) :
    (Nat → Nat → Nat → Rat) × Rat := Id.run do
  let hinvA := tab2 d d (inverse d H)
  let Hinv := look2 hinvA d
  let mut margin : Rat := 1
  let mut rows : Array (Array (Array Rat)) := #[]
  for i in List.range N do
    let mut row : Array (Array Rat) := #[]
    for j in List.range N do
      let r : Nat → Rat := fun x => pos j x - pos i x
      let out := disp d ratRint H Hinv ppp pos i j
      let f := frac d Hinv r
      let mut v : Array Rat := #[]
      for k in List.range d do
        v := v.push (out k)
        if ppp k ≠ 0 ∧ i ≠ j then
          margin := minRat margin (tieMargin (f k))
      row := row.push v
    rows := rows.push row
  let R : Nat → Nat → Nat → Rat := fun i j k => ((rows.getD i #[]).getD j #[]).getD k 0
  (R, margin)

/-- `s2 d N K ndelta rdelta sig[K*K] L[d] H[d*d] ppp[d] typ[N](0-based) pos[N*d]`
    → `margin ming[N] | s2[N]` (margin exact, the rest float bits; ming_i = smallest smeared g of particle i) -/
def handleS2 (toks : List String) : Option String := do
  let (hd, rest) ← takeMap parseNatDigits 4 toks
  let d := hd.getD 0 0; let N := hd.getD 1 0; let K := hd.getD 2 0; let ndelta := hd.getD 3 0
  if d < 2 ∨ d > 3 ∨ N = 0 ∨ ndelta = 0 then none
  let (rd, rest) ← takeMap parseRat 1 rest
  let rdelta := rd.headD 0
  let (sg, rest) ← takeMap parseRat (K*K) rest
  let (ls, rest) ← takeMap parseRat d rest
  let (hs, rest) ← takeMap parseRat (d*d) rest
  let (ps, rest) ← takeMap parseRat d rest
  let (ts, rest) ← takeMap parseNatDigits N rest
  let (xs, rest) ← takeMap parseRat (N*d) rest
  if !rest.isEmpty then none
  let hsA := hs.toArray; let psA := ps.toArray; let xsA := xs.toArray; let tsA := ts.toArray
  let sgA := (sg.map ratToFloat).toArray
  let H := look2 hsA d
  let ppp := look psA
  let pos := look2 xsA d
  let typ := look tsA
  let sigF : Nat → Nat → Float := look2 sgA K
  let (R, m0) := allDisp d N H ppp pos
  let rm : Rat := rmax rdelta ndelta
  let rm2 := rm * rm
  let rho : Rat := rhoTotal d N (arrFn ls)
  let rhoF := ratToFloat rho
  let rdF := ratToFloat rdelta
  let mut margin := m0
  let mut mings : List Float := []
  let mut outs : List Float := []
  for i in List.range N do
    let d2A := tab N fun j => dot d (R i j) (R i j)
    let d2 := look d2A
    -- margin of the `distance < rmax` decision, expressed on the distance scale
    for j in List.range N do
      if j ≠ i then
        let gap := absRat (d2 j - rm2) / ((if d2 j < 1 then 1 else d2 j) + rm)
        margin := minRat margin gap
    let keepA := tab (N - 1) fun j => decide (d2 (skip i j) < rm2)
    let keep : Nat → Bool := fun j => keepA.getD j false
    let distA := tab N fun j => Float.sqrt (ratToFloat (d2 j))
    let distF := look distA
    let gA := tab ndelta (grImplK Float.exp Float.sqrt fpi d N i rdF rhoF distF typ sigF keep)
    let mut ming : Float := 1.0e300
    for k in List.range ndelta do
      let gk := gA.getD k 0.0
      if gk < ming then ming := gk
      if gk.isNaN then ming := 0.0
    let v := s2ImplK Float.exp Float.log Float.sqrt fpi d N i ndelta rdF rhoF distF typ sigF keep
    outs := v :: outs
    mings := ming :: mings
  pure (showRat margin ++ " " ++ " ".intercalate (mings.reverse.map showFloat) ++ " | "
        ++ " ".intercalate (outs.reverse.map showFloat))

/-- the four nearest neighbours of `i` by exact squared distance (ties broken by index), the
gap between the 4th and the 5th nearest and the smallest distance² to another particle -/
def nearest4 (N i : Nat) (d2 : Nat → Rat) : List Nat × Rat × Rat :=
  let others := (List.range N).filter (· ≠ i)
  let sorted := others.mergeSort fun a b => decide (d2 a < d2 b ∨ (d2 a = d2 b ∧ a ≤ b))
  let four := sorted.take 4
  let gap : Rat := match sorted.drop 3 with
    | a :: b :: _ => d2 b - d2 a
    | _ => 1
  let near : Rat := match sorted with
    | a :: _ => d2 a
    | _ => 1
  (four, gap, near)

/-- `tetra N H[9] ppp[3] pos[N*3]` → `margin gap near q[N]` (exact, exact, exact, float bits) -/
def handleTetra (toks : List String) : Option String := do
  let (hd, rest) ← takeMap parseNatDigits 1 toks
  let N := hd.headD 0
  if N < 5 then none
  let (hs, rest) ← takeMap parseRat 9 rest
  let (ps, rest) ← takeMap parseRat 3 rest
  let (xs, rest) ← takeMap parseRat (N*3) rest
  if !rest.isEmpty then none
  let hsA := hs.toArray; let psA := ps.toArray; let xsA := xs.toArray
  let (R, m0) := allDisp 3 N (look2 hsA 3) (look psA) (look2 xsA 3)
  let mut gapMin : Rat := 1000000
  let mut nearMin : Rat := 1000000
  let mut outs : List Float := []
  for i in List.range N do
    let d2A := tab N fun j => dot 3 (R i j) (R i j)
    let (four, gap, near) := nearest4 N i (look d2A)
    gapMin := minRat gapMin gap
    nearMin := minRat nearMin near
    let rfA := tab2 N 3 fun j x => ratToFloat (R i j x)
    outs := tetraImpl Float.sqrt (look2 rfA 3) (arrFn four) :: outs
  pure (showRat m0 ++ " " ++ showRat gapMin ++ " " ++ showRat nearMin ++ " "
        ++ " ".intercalate (outs.reverse.map showFloat))

/-- take the neighbour rows `cn n_1 … n_cn` (0-based ids) off the token list -/
def takeRows : Nat → List String → Option (List (List Nat) × List String)
  | 0, ts => some ([], ts)
  | n+1, ts => do
      let (c, rest) ← takeMap parseNatDigits 1 ts
      let (row, rest) ← takeMap parseNatDigits (c.headD 0) rest
      let (rows, rest) ← takeRows n rest
      pure (row :: rows, rest)

/-- stand-in for `np.linalg.eig(Q)[0].max()` on a real 2×2 matrix with real spectrum:
larger root of the characteristic polynomial -/
def eigMax2 (a b c e : Rat) : Float :=
  (ratToFloat (a + e) + Float.sqrt (ratToFloat ((a - e) * (a - e) + 4 * b * c))) / 2.0

/-- `nematic N eig(0/1) hasnb(0/1) Nmax u[N*2] rows…` → `Q[N*4] | scalar[N]`
    (Q exact rationals, scalars float bits) -/
def handleNematic (toks : List String) : Option String := do
  let (hd, rest) ← takeMap parseNatDigits 4 toks
  let N := hd.getD 0 0; let eig := hd.getD 1 0; let hasnb := hd.getD 2 0; let nmax := hd.getD 3 0
  let (us, rest) ← takeMap parseRat (N*2) rest
  let (rows, rest) ← if hasnb = 1 then takeRows N rest else some ([], rest)
  if !rest.isEmpty then none
  let u := arrFn2 us 2
  let Qraw : Nat → Nat → Nat → Rat := fun i => qRaw 2 (u i)
  -- read_neighbors keeps the first min(cn, Nmax) ids of a row
  let nbr : Nat → List Nat := fun i => ((arrFn rows) i).take nmax
  let Q : Nat → Nat → Nat → Rat := if hasnb = 1 then cgAvg Qraw nbr else Qraw
  let mut qs : List Rat := []
  let mut ss : List Float := []
  for i in List.range N do
    let qiA := tab2 2 2 (Q i)
    let Qi := look2 qiA 2
    for x in List.range 2 do
      for y in List.range 2 do
        qs := Qi x y :: qs
    let s : Float :=
      if eig = 1 then nematicEig (eigMax2 (Qi 0 0) (Qi 0 1) (Qi 1 0) (Qi 1 1))
      else nematicTrace Float.sqrt 2 (fun x y => ratToFloat (Qi x y))
    ss := s :: ss
  pure (joinRat qs.reverse ++ " | " ++ " ".intercalate (ss.reverse.map showFloat))

/-- one Jacobi rotation annihilating the (p,q) entry of a symmetric 3×3 matrix (row-major array) -/
def jacobiRot (M : Array Float) (p q : Nat) : Array Float :=
  let A : Nat → Nat → Float := fun i j => M.getD (i * 3 + j) 0.0
  let apq := A p q
  if apq == 0.0 then M else
  let theta := (A q q - A p p) / (2.0 * apq)
  let t := (if theta < 0.0 then -1.0 else 1.0) / (theta.abs + Float.sqrt (theta * theta + 1.0))
  let c := 1.0 / Float.sqrt (t * t + 1.0)
  let s := t * c
  tab2 3 3 fun i j =>
    if i = p ∧ j = p then A p p - t * apq
    else if i = q ∧ j = q then A q q + t * apq
    else if (i = p ∧ j = q) ∨ (i = q ∧ j = p) then 0.0
    else if i = p then c * A j p - s * A j q
    else if j = p then c * A i p - s * A i q
    else if i = q then s * A j p + c * A j q
    else if j = q then s * A i p + c * A i q
    else A i j

/-- stand-in for `np.linalg.eig` on a symmetric 3×3 matrix: cyclic Jacobi sweeps -/
def jacobiEig3 (A : Nat → Nat → Float) : List Float :=
  let B := foldRange 12 (fun M _ => jacobiRot (jacobiRot (jacobiRot M 0 1) 0 2) 1 2) (tab2 3 3 A)
  [B.getD 0 0.0, B.getD 4 0.0, B.getD 8 0.0]

def eigSym2 (a b e : Rat) : List Float :=
  let s := Float.sqrt (ratToFloat ((a - e) * (a - e) + 4 * b * b))
  let t := ratToFloat (a + e)
  [(t - s) / 2.0, (t + s) / 2.0]

def sortFloats (l : List Float) : List Float := l.mergeSort fun a b => decide (a ≤ b)

/-- `gyr d N pos[N*d]` → `tr tr2 det | S[d*d] | eig[d] | descriptors` (exact | exact | bits | bits)
descriptors 3-D: Rg asph acyl aniso fractal; 2-D: Rg acyl fractal -/
def handleGyr (toks : List String) : Option String := do
  let (hd, rest) ← takeMap parseNatDigits 2 toks
  let d := hd.getD 0 0; let N := hd.getD 1 0
  if d < 2 ∨ d > 3 ∨ N = 0 then none
  let (xs, rest) ← takeMap parseRat (N*d) rest
  if !rest.isEmpty then none
  let xsA := xs.toArray
  let P := look2 xsA d
  let sA := tab2 d d (gyrImpl N P)
  let S : Nat → Nat → Rat := look2 sA d
  let tr := trace d S
  let tr2 := traceSq d S
  let det : Rat :=
    if d = 2 then S 0 0 * S 1 1 - S 0 1 * S 1 0
    else S 0 0 * (S 1 1 * S 2 2 - S 1 2 * S 2 1) - S 0 1 * (S 1 0 * S 2 2 - S 1 2 * S 2 0)
         + S 0 2 * (S 1 0 * S 2 1 - S 1 1 * S 2 0)
  let eigs := sortFloats (if d = 2 then eigSym2 (S 0 0) (S 0 1) (S 1 1)
                          else jacobiEig3 fun i j => ratToFloat (S i j))
  let l := arrFn eigs
  let rg := radGyr Float.sqrt d l
  let fd := fractalDim Float.sqrt Float.log10 d N l
  let desc : List Float := if d = 3 then [rg, asph l, acyl l, aniso Float.sqrt l, fd] else [rg, acyl l, fd]
  let Sl : List Rat := (List.range d).flatMap fun i => (List.range d).map fun j => S i j
  pure (showRat tr ++ " " ++ showRat tr2 ++ " " ++ showRat det ++ " | " ++ joinRat Sl ++ " | "
        ++ " ".intercalate (eigs.map showFloat) ++ " | " ++ " ".intercalate (desc.map showFloat))

end Pms.LocalOrder
