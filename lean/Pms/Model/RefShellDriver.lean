-- DRIVER: refshell Pms.RefShell.handleRefShell
import Pms.Model.RefShell
import Pms.Model.Io
/-! Driver op for the reference shells of C09: `refshell <name> <l>` → `<exact q_l² as p/q> x y z x y z …`
(the integer bond vectors of the shell the theorem `C09_reference_shells` is about), so that the harness builds the
crystal it gives to the REAL `boo_3d` from the model's own vectors and compares the real q_l² with the exact value. -/
namespace Pms.RefShell
open Pms.Io

def handleRefShell (toks : List String) : Option String := do
  match toks with
  | [name, ls] =>
    let l ← parseNatDigits ls
    let sh := shellOf name
    if sh.isEmpty then none
    else pure (showRat (ql2 l sh) ++ " " ++ " ".intercalate (sh.map fun b => s!"{b.1} {b.2.1} {b.2.2}"))
  | _ => none

end Pms.RefShell
