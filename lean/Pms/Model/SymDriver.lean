-- DRIVER: sym Pms.Sym.handleSym
import Pms.Model.Sym
import Pms.Model.Io
/-! Driver operation for C07 (exact ℚ): applies one generator of the symmetry group, as defined in
`Pms/Model/Sym.lean`, to a configuration.  The harness compares the result with its own numpy transformation of the
same input before it feeds the transformed configuration to the real routines. -/
namespace Pms.Sym
open Pms Pms.Io

def flat (n d : Nat) (P : Nat → Nat → Rat) : List Rat :=
  (List.range n).flatMap fun i => (List.range d).map fun k => P i k

/--
* `sym translate d n pos[n*d] c[d]`
* `sym lshift d H[d*d] ppp[d] n pos[n*d] m[n*d]`
* `sym relabel d n sigma[n] pos[n*d]`
* `sym axes d pi[d] n pos[n*d]`
* `sym axesmat d pi[d] M[d*d]`
* `sym rot d R[d*d] n pos[n*d]`            → first token 1 iff R·Rᵀ = 1 exactly
* `sym dilate s d n pos[n*d]`
* `sym swap a b n ty[n]`
-/
def handleSym (toks : List String) : Option String := do
  match toks with
  | "translate" :: rest =>
    let (dl, rest) ← takeMap parseNatDigits 2 rest
    let d := dl.getD 0 0; let n := dl.getD 1 0
    let (ps, rest) ← takeMap parseRat (n*d) rest
    let (cs, rest) ← takeMap parseRat d rest
    if !rest.isEmpty then none
    pure (joinRat (flat n d (translate (arrFn2 ps d) (arrFn cs))))
  | "lshift" :: rest =>
    let (dl, rest) ← takeMap parseNatDigits 1 rest
    let d := dl.headD 0
    let (hs, rest) ← takeMap parseRat (d*d) rest
    let (pp, rest) ← takeMap parseRat d rest
    let (nl, rest) ← takeMap parseNatDigits 1 rest
    let n := nl.headD 0
    let (ps, rest) ← takeMap parseRat (n*d) rest
    let (ms, rest) ← takeMap parseInt (n*d) rest
    if !rest.isEmpty then none
    pure (joinRat (flat n d (latticeShift d (arrFn2 hs d) (arrFn pp) (arrFn2 ms d) (arrFn2 ps d))))
  | "relabel" :: rest =>
    let (dl, rest) ← takeMap parseNatDigits 2 rest
    let d := dl.getD 0 0; let n := dl.getD 1 0
    let (sg, rest) ← takeMap parseNatDigits n rest
    let (ps, rest) ← takeMap parseRat (n*d) rest
    if !rest.isEmpty then none
    pure (joinRat (flat n d (relabel (arrFn sg) (arrFn2 ps d))))
  | "axes" :: rest =>
    let (dl, rest) ← takeMap parseNatDigits 1 rest
    let d := dl.headD 0
    let (pi, rest) ← takeMap parseNatDigits d rest
    let (nl, rest) ← takeMap parseNatDigits 1 rest
    let n := nl.headD 0
    let (ps, rest) ← takeMap parseRat (n*d) rest
    if !rest.isEmpty then none
    pure (joinRat (flat n d (permAxes (arrFn pi) (arrFn2 ps d))))
  | "axesmat" :: rest =>
    let (dl, rest) ← takeMap parseNatDigits 1 rest
    let d := dl.headD 0
    let (pi, rest) ← takeMap parseNatDigits d rest
    let (ms, rest) ← takeMap parseRat (d*d) rest
    if !rest.isEmpty then none
    pure (joinRat (flat d d (permMat (arrFn pi) (arrFn2 ms d))))
  | "rot" :: rest =>
    let (dl, rest) ← takeMap parseNatDigits 1 rest
    let d := dl.headD 0
    let (rs, rest) ← takeMap parseRat (d*d) rest
    let (nl, rest) ← takeMap parseNatDigits 1 rest
    let n := nl.headD 0
    let (ps, rest) ← takeMap parseRat (n*d) rest
    if !rest.isEmpty then none
    let R := arrFn2 rs d
    let orth := (List.range d).all fun k => (List.range d).all fun l =>
      gram d R k l == (if k = l then (1 : Rat) else 0)
    pure ((if orth then "1 " else "0 ") ++ joinRat (flat n d (rotate d R (arrFn2 ps d))))
  | "dilate" :: rest =>
    let (sl, rest) ← takeMap parseRat 1 rest
    let (dl, rest) ← takeMap parseNatDigits 2 rest
    let d := dl.getD 0 0; let n := dl.getD 1 0
    let (ps, rest) ← takeMap parseRat (n*d) rest
    if !rest.isEmpty then none
    pure (joinRat (flat n d (dilate (sl.headD 0) (arrFn2 ps d))))
  | "swap" :: rest =>
    let (dl, rest) ← takeMap parseNatDigits 3 rest
    let a := dl.getD 0 0; let b := dl.getD 1 0; let n := dl.getD 2 0
    let (ts, rest) ← takeMap parseNatDigits n rest
    if !rest.isEmpty then none
    pure (" ".intercalate ((List.range n).map fun i => toString (swapTypes a b (arrFn ts) i)))
  | _ => none

end Pms.Sym
