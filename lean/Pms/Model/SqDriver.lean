-- DRIVER: sq Pms.Sq.handleSq
-- DRIVER: wave Pms.Sq.handleWave
import Pms.Model.Sq
import Pms.Model.Wave
import Pms.Model.Io
import Pms.Gen.Sq
import Pms.Gen.Wave
/-! Driver operations for C04.  Integer/rational parts (wave-vector set, species routing, grouping keys |n/L|², the
margins) are exact; the phases cos/sin(q·r) and everything downstream are evaluated in `Float`. -/
namespace Pms.Sq
open Pms Pms.Io Pms.Wave

instance : NatCast Float := ⟨Float.ofNat⟩

def parsePos (s : String) : Pos :=
  if s = "F" then .no else if s = "T" then .yes else .axis s

def showVecs (vs : List (List Int)) : String :=
  " ".intercalate (vs.map fun v => " ".intercalate (v.map fun x => s!"{x}"))

/-- `wave d numofq pos` → `nvec v…` : the regenerated `choosewavevector` -/
def handleWave (toks : List String) : Option String := do
  match toks with
  | [ds, ns, ps] =>
    let d ← parseNatDigits ds
    let n ← parseNatDigits ns
    let vs := choose Pms.Gen.Wave.branches d n (parsePos ps)
    pure s!"{vs.length} {showVecs vs}"
  | _ => none

/-- rational enclosure of π -/
def piLo : Rat := 3141592653589793 / 1000000000000000
def piHi : Rat := 3141592653589794 / 1000000000000000

def absRat (x : Rat) : Rat := if x < 0 then -x else x
def minRat (a b : Rat) : Rat := if b < a then b else a

/-- `int(x)` for x known only up to the enclosure [a, b] (both ≥ 0): the value and the distance of the enclosure
from the nearest integers (0 when the two ends truncate differently) -/
def intEnclosure (a b : Rat) : Nat × Rat :=
  let lo := minRat a b; let hi := if a < b then b else a
  let fl := lo.floor; let fh := hi.floor
  if fl ≠ fh ∨ fl < 0 then (fl.toNat, 0) else (fl.toNat, minRat (lo - (fl : Rat)) ((fl : Rat) + 1 - hi))

def rnd (digits : Nat) (x : Float) : Float :=
  let p := Float.ofNat (10 ^ digits)
  Float.round (x * p) / p

def floatOfInt (x : Int) : Float := Float.ofInt x

/-- tabulate into a concrete array VALUE (bind it with `let` in the handler and close over it: a function-valued helper
would be compiled with the index as an extra argument and rebuild the array on every read) -/
def tabArr {β : Type} (n : Nat) (f : Nat → β) : Array β := Array.ofFn (n := n) fun i => f i.val

def tabColsArr (cols : List String) (n : Nat) (value : String → Nat → Float) : List (String × Array Float) :=
  cols.map fun col => (col, tabArr n (value col))

def readCols (arrs : List (String × Array Float)) (col : String) (k : Nat) : Float :=
  match arrs.find? (fun p => p.1 == col) with
  | some p => p.2.getD k 0.0
  | none => 0.0

/--
`sq <impl|spec> d T N L[d] ty[T·N] pos[T·N·d] E nq n[nq·d]`   explicit integer wave vectors, or
`sq <impl|spec> d T N L[d] ty[T·N] pos[T·N·d] D qrange <F|T|x|y|z>`   default set.
→ `mInt mKey numofq K nvec vecs[nvec·d] ncol names[ncol] ngroup (q vals[ncol])*`   (floats as raw bits)
mInt: margin of the `int()` in numofq; mKey: lower bound of ((q₂−q₁)/2π)² over distinct |q| (0 if two vectors of equal
exact |n/L|² differ in some |n_i|, i.e. float evaluation might not give bit-equal norms).
-/
def handleSq (toks : List String) : Option String := do
  match toks with
  | modeTok :: rest =>
    let (hdr, rest) ← takeMap parseNatDigits 3 rest
    let d := hdr.getD 0 0; let T := hdr.getD 1 0; let N := hdr.getD 2 0
    if d = 0 ∨ d > 3 ∨ T = 0 then none
    let (Ls, rest) ← takeMap parseRat d rest
    let (tys, rest) ← takeMap parseNatDigits (T * N) rest
    let (ps, rest) ← takeMap parseRat (T * N * d) rest
    let L := arrFn Ls
    let tyA := arrFn tys
    let ty : Nat → Nat → Nat := fun f i => tyA (f * N + i)
    let posA := arrFn (ps.map ratToFloat)
    let pos : Nat → Nat → Nat → Float := fun f i j => posA ((f * N + i) * d + j)
    -- wave vectors
    let (vecs, numofq, mInt) ← (match rest with
      | "E" :: r => do
          let (nql, r) ← takeMap parseNatDigits 1 r
          let nq := nql.headD 0
          let (ns, r) ← takeMap parseInt (nq * d) r
          if !r.isEmpty then none
          let a := arrFn ns
          pure ((List.range nq).map (fun k => (List.range d).map fun j => a (k * d + j)), 0, (1 : Rat))
      | ["D", qr, pt] => do
          let qrange ← parseRat qr
          -- twopidl.min() is attained on the longest edge
          let tmin (pi : Rat) : Rat := (List.range d).foldl (fun m j => minRat m (Pms.Gen.Sq.twopidlR pi (L j))) (Pms.Gen.Sq.twopidlR pi (L 0))
          let (nq, mg) := intEnclosure (Pms.Gen.Sq.numofqArgR qrange (tmin piLo)) (Pms.Gen.Sq.numofqArgR qrange (tmin piHi))
          pure (choose Pms.Gen.Wave.branches d nq (parsePos pt), nq, mg)
      | _ => none)
    let nq := vecs.length
    let vecA := vecs.toArray
    let nvec : Nat → Nat → Int := fun k j => (vecA.getD k []).getD j 0
    -- exact grouping key |n/L|²
    let keyA : Array Rat := tabArr nq fun k => (List.range d).foldl (fun s j => s + ((nvec k j : Int) : Rat) / L j * (((nvec k j : Int) : Rat) / L j)) (0 : Rat)
    let key : Nat → Rat := fun k => keyA.getD k 0
    let keys := distinctKeys nq key
    let rec gaps : List Rat → Rat → Rat
      | a :: b :: t, m => gaps (b :: t) (minRat m ((b - a) * (b - a) / (2 * (a + b))))
      | _, m => m
    let mKey0 := gaps keys 1
    -- equal keys must come from equal |n_i| (then the float norms are bit-equal)
    let sameAbs := (List.range nq).all fun k =>
      match (List.range nq).find? (fun k0 => key k0 == key k) with
      | some k0 => (List.range d).all fun j => (nvec k0 j).natAbs == (nvec k j).natAbs
      | none => true
    let mKey := if sameAbs then mKey0 else 0
    -- species
    let uniq := uniqTypes N (ty 0)
    let K := uniq.length
    let tc := typecount uniq N (ty 0)
    -- phases (Float)
    let twopidl := fun j => Pms.Gen.Sq.twopidlF (ratToFloat (L j))
    let qvA : Array Float := tabArr (nq * d) fun x => floatOfInt (nvec (x / d) (x % d)) * twopidl (x % d)
    let qv : Nat → Nat → Float := fun k j => qvA.getD (k * d + j) 0.0
    let theta : Nat → Nat → Nat → Float := fun f i k => (List.range d).foldl (fun s j => s + qv k j * pos f i j) 0.0
    let cA : Array Float := tabArr (T * N * nq) fun x => Float.cos (theta (x / (N * nq)) (x / nq % N) (x % nq))
    let sA : Array Float := tabArr (T * N * nq) fun x => Float.sin (theta (x / (N * nq)) (x / nq % N) (x % nq))
    let c : Nat → Nat → Nat → Float := fun f i k => cA.getD ((f * N + i) * nq + k) 0.0
    let s : Nat → Nat → Nat → Float := fun f i k => sA.getD ((f * N + i) * nq + k) 0.0
    let qval : Nat → Float := fun k => Float.sqrt ((List.range d).foldl (fun s j => s + qv k j * qv k j) 0.0)
    let (cols, tab) ← (if modeTok = "impl" then do
        let m ← methodFor Pms.Gen.Sq.methods Pms.Gen.Sq.dispatch K
        let cols := m.columns.drop 1
        let arrs := tabColsArr cols nq (m.value Float.sqrt T N tc ty c s)
        pure (cols, tableOf (rnd m.roundDigits) nq key cols (readCols arrs))
      else if modeTok = "spec" then
        let cols := Spec.columns K
        let arrs := tabColsArr cols nq (Spec.value Float.sqrt K T N ty c s)
        pure (cols, tableOf (rnd 6) nq key cols (readCols arrs))
      else none)
    -- rows: one per distinct key
    let rows := keys.map fun x =>
      let k0 := ((List.range nq).find? (fun k => key k == x)).getD 0
      let vals := tab.map fun cv => ((cv.2.find? (fun p => p.1 == x)).map (·.2)).getD 0.0
      showFloat (qval k0) ++ " " ++ " ".intercalate (vals.map showFloat)
    pure (s!"{showRat mInt} {showRat mKey} {numofq} {K} {nq} {showVecs vecs} {cols.length} " ++ " ".intercalate cols
          ++ s!" {keys.length} " ++ " ".intercalate rows)
  | _ => none

end Pms.Sq
