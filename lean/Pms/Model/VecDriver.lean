-- DRIVER: vpr Pms.Vec.handlePr
-- DRIVER: vnb Pms.Vec.handleNb
-- DRIVER: vdc Pms.Vec.handleDivCurl
-- DRIVER: vvib Pms.Vec.handleVib
-- DRIVER: vdec Pms.Vec.handleDec
-- DRIVER: vcorr Pms.Vec.handleCorr
import Pms.Model.Vec
import Pms.Model.PbcDriver
import Pms.Model.Io
/-! Driver operations for C15.  Real-valued measures run in exact ℚ; the Fourier operations run the
same polymorphic definitions at `Float` / `Cx Float` (cos, sin, √ evaluated in floating point). -/
namespace Pms.Vec
open Pms Pms.Io

/-- strict tabulation: the arrays are built when `tab`/`tab2` is evaluated (a `let`), and `look`/`look2`
applied to the finished array is the index function (Prelude's `memo` re-tabulates on every read when it is
partially applied, which is exponential for nested tables) -/
def tab {β : Type} (n : Nat) (f : Nat → β) : Array β := Array.ofFn (n := n) fun i => f i.val
def tab2 {β : Type} (n m : Nat) (f : Nat → Nat → β) : Array (Array β) :=
  Array.ofFn (n := n) fun i => Array.ofFn (n := m) fun j => f i.val j.val
def look {β : Type} [Inhabited β] (a : Array β) (i : Nat) : β := a.getD i default
def look2 {β : Type} [Inhabited β] (a : Array (Array β)) (i j : Nat) : β := (a.getD i #[]).getD j default

/-- neighbour table: `cn_0 id.. cn_1 id.. …` (0-based ids) for `N` particles -/
def parseNb : Nat → List String → Option (List (List Nat) × List String)
  | 0, ts => some ([], ts)
  | n+1, ts => do
      let (c, rest) ← takeMap parseNatDigits 1 ts
      let (ids, rest) ← takeMap parseNatDigits (c.headD 0) rest
      let (more, rest) ← parseNb n rest
      pure (ids :: more, rest)

def nbFns (rows : List (List Nat)) : (Nat → Nat) × (Nat → Nat → Nat) :=
  let a := (rows.map List.toArray).toArray
  (fun i => (a.getD i #[]).size, fun i j => (a.getD i #[]).getD j 0)

/-- `vpr N d v[N*d]` → `prImpl prSpec` -/
def handlePr (toks : List String) : Option String := do
  let (hd, rest) ← takeMap parseNatDigits 2 toks
  let N := hd.getD 0 0; let d := hd.getD 1 0
  let (vs, rest) ← takeMap parseRat (N*d) rest
  if !rest.isEmpty then none
  let v := arrFn2 vs d
  pure (joinRat [prImpl N d v, prSpec N d v])

/-- `vnb N d v[N*d] nbtable` → `align_0 … align_{N-1} sum_0 sum_1` (`nan` where cn = 0) -/
def handleNb (toks : List String) : Option String := do
  let (hd, rest) ← takeMap parseNatDigits 2 toks
  let N := hd.getD 0 0; let d := hd.getD 1 0
  let (vs, rest) ← takeMap parseRat (N*d) rest
  let (rows, rest) ← parseNb N rest
  if !rest.isEmpty then none
  let v := arrFn2 vs d
  let (cn, nb) := nbFns rows
  let al := (List.range N).map fun i => if cn i = 0 then "nan" else showRat (alignImpl d v cn nb i)
  pure (" ".intercalate al ++ " " ++ joinRat [pqNum N d v cn nb, pqDen N d v cn nb])

/-- `vdc d N H[d*d] ppp[d] pos[N*d] v[N*d] nbtable` → `margin div[N] (curl[N*3] if d = 3)` -/
def handleDivCurl (toks : List String) : Option String := do
  let (hd, rest) ← takeMap parseNatDigits 2 toks
  let d := hd.getD 0 0; let N := hd.getD 1 0
  if d ≠ 2 ∧ d ≠ 3 then none
  let (hs, rest) ← takeMap parseRat (d*d) rest
  let (ps, rest) ← takeMap parseRat d rest
  let (xs, rest) ← takeMap parseRat (N*d) rest
  let (vs, rest) ← takeMap parseRat (N*d) rest
  let (rows, rest) ← parseNb N rest
  if !rest.isEmpty then none
  let H := arrFn2 hs d
  let hinvA := tab2 d d (Pbc.inverse d H)
  let Hinv := look2 hinvA
  let ppp := arrFn ps
  let pos := arrFn2 xs d
  let v := arrFn2 vs d
  let (cn, nb) := nbFns rows
  let mut margin : Rat := 1
  let mut divs : List String := []
  let mut curls : List String := []
  for i in List.range N do
    for j in List.range (cn i) do
      let f := Pbc.frac d Hinv (fun k => pos (nb i j) k - pos i k)
      for k in List.range d do
        if ppp k ≠ 0 then
          let mg := Pbc.tieMargin (f k)
          if mg < margin then margin := mg
    if cn i = 0 then
      divs := "nan" :: divs
      if d = 3 then curls := "nan" :: "nan" :: "nan" :: curls
    else
      divs := showRat (divImpl d ratRint H Hinv ppp pos v cn nb i) :: divs
      if d = 3 then
        let c := curlImpl ratRint H Hinv ppp pos v cn nb i
        curls := showRat (c 2) :: showRat (c 1) :: showRat (c 0) :: curls
  pure (" ".intercalate (showRat margin :: (divs.reverse ++ curls.reverse)))

/-- `vvib N M rows ω[M] E[rows*M]` → `impl[N] spec[N]` -/
def handleVib (toks : List String) : Option String := do
  let (hd, rest) ← takeMap parseNatDigits 3 toks
  let N := hd.getD 0 0; let M := hd.getD 1 0; let rows := hd.getD 2 0
  if N = 0 then none
  let (ws, rest) ← takeMap parseRat M rest
  let (es, rest) ← takeMap parseRat (rows*M) rest
  if !rest.isEmpty then none
  let d := rows / N
  let ω := arrFn ws
  let E := arrFn2 es M
  let r := vibImpl M d ω E
  pure (joinRat ((List.range N).map r ++ (List.range N).map (vibSpec M d ω E)))

/-! #### Float / complex-Float instance -/

structure Cx where
  re : Float
  im : Float
deriving Inhabited

instance : Add Cx := ⟨fun a b => ⟨a.re + b.re, a.im + b.im⟩⟩
instance : Sub Cx := ⟨fun a b => ⟨a.re - b.re, a.im - b.im⟩⟩
instance : Mul Cx := ⟨fun a b => ⟨a.re * b.re - a.im * b.im, a.re * b.im + a.im * b.re⟩⟩
instance : Div Cx := ⟨fun a b =>
  let n := b.re * b.re + b.im * b.im
  ⟨(a.re * b.re + a.im * b.im) / n, (a.im * b.re - a.re * b.im) / n⟩⟩
instance : OfNat Cx 0 := ⟨⟨0.0, 0.0⟩⟩

instance : NatCast Float := ⟨Float.ofNat⟩

def cxOfReal (x : Float) : Cx := ⟨x, 0.0⟩
def cxConj (z : Cx) : Cx := ⟨z.re, -z.im⟩
def cxExpNegI (θ : Float) : Cx := ⟨Float.cos θ, -Float.sin θ⟩
def piF : Float := 3.141592653589793

def parseF (s : String) : Option Float := (parseRat s).map ratToFloat
def showF (x : Float) : String := showFloat x
def showC (z : Cx) : String := showFloat z.re ++ " " ++ showFloat z.im

/-- distance of `x·10⁸` from the nearest half-integer (the flip point of `round(8)`) -/
def roundMargin (x : Float) : Float :=
  let y := x * 1e8
  let f := y - Float.floor y
  Float.abs (f - 0.5)

/-- everything `vector_decomposition_sq` returns for one frame.
Per wave vector: `q[d] |q| Sq FFT[d] T_FFT[d] Sq_T L_FFT[d] Sq_L`; plus the exact group key -/
structure DecOut where
  qv : Nat → Nat → Float
  qn : Nat → Float
  F : Nat → Nat → Cx
  Tp : Nat → Nat → Cx
  Lp : Nat → Nat → Cx
  S : Nat → Float
  ST : Nat → Float
  SL : Nat → Float

def decompose (d N nq : Nat) (L : Nat → Float) (pos A : Nat → Nat → Float) (nv : Nat → Nat → Float) : DecOut :=
  let qA := tab2 nq d (qvec piF L nv)
  let q := look2 qA
  let fA := tab2 nq d (mode cxOfReal cxExpNegI Float.sqrt N d q pos A)
  let F := look2 fA
  let uA := tab2 nq d (unitq Float.sqrt d q)
  let u := look2 uA
  let lA := tab2 nq d fun n => longPart cxOfReal d (u n) (F n)
  let Lp := look2 lA
  let tA := tab2 nq d fun n => transPart cxOfReal d (u n) (F n)
  let Tp := look2 tA
  let qnA := tab nq (qnorm Float.sqrt d q)
  let sA := tab nq fun n => specOf cxConj Cx.re d (F n)
  let stA := tab nq fun n => specOf cxConj Cx.re d (Tp n)
  let slA := tab nq fun n => specOf cxConj Cx.re d (Lp n)
  { qv := q, qn := look qnA, F := F, Tp := Tp, Lp := Lp, S := look sA, ST := look stA, SL := look slA }

/-- exact group key of wave vector `n`: `Σ (n_k / L_k)²` in ℚ (|q| = 2π √key) -/
def qKey (d : Nat) (L : Nat → Rat) (nv : Nat → Nat → Int) (n : Nat) : Rat :=
  sumRange d fun k => ((nv n k : Int) : Rat) / L k * (((nv n k : Int) : Rat) / L k)

/-- smallest relative gap between distinct keys (the `groupby` on the rounded |q| must not merge them) -/
def keyGap (nq : Nat) (key : Nat → Rat) : Rat := Id.run do
  let mut g : Rat := 1
  for a in List.range nq do
    for b in List.range nq do
      let x := key a; let y := key b
      if x < y then
        let r := (y - x) / y
        if r < g then g := r
  return g

/-- representatives of the groups, ascending key -/
def groupReps (nq : Nat) (key : Nat → Rat) : List Nat :=
  let firsts := (List.range nq).filter fun n => (List.range n).all fun m => key m ≠ key n
  (firsts.toArray.qsort fun a b => key a < key b).toList

/-- `vdec d N nq L[d] pos[N*d] A[N*d] nv[nq*d]` →
`margin gap ; per wave vector row ; per group (|q| S S_T S_L)` (floats as raw bits, `|` separated) -/
def handleDec (toks : List String) : Option String := do
  let (hd, rest) ← takeMap parseNatDigits 3 toks
  let d := hd.getD 0 0; let N := hd.getD 1 0; let nq := hd.getD 2 0
  let (ls, rest) ← takeMap parseRat d rest
  let (xs, rest) ← takeMap parseRat (N*d) rest
  let (as, rest) ← takeMap parseRat (N*d) rest
  let (ns, rest) ← takeMap parseInt (nq*d) rest
  if !rest.isEmpty then none
  let Lr := arrFn ls
  let nvI := arrFn2 ns d
  let L := arrFn (ls.map ratToFloat)
  let pos := arrFn2 (xs.map ratToFloat) d
  let A := arrFn2 (as.map ratToFloat) d
  let nv := arrFn2 (ns.map Float.ofInt) d
  let o := decompose d N nq L pos A nv
  let keyA := tab nq (qKey d Lr nvI)
  let key := look keyA
  let gap := keyGap nq key
  let mut margin : Float := 0.5
  for n in List.range nq do
    let m := roundMargin (o.qn n)
    if m < margin then margin := m
  let dims := List.range d
  let rows := (List.range nq).map fun n =>
    " ".intercalate (dims.map (fun k => showF (o.qv n k)) ++ [showF (o.qn n), showF (o.S n)]
      ++ dims.map (fun k => showC (o.F n k)) ++ dims.map (fun k => showC (o.Tp n k)) ++ [showF (o.ST n)]
      ++ dims.map (fun k => showC (o.Lp n k)) ++ [showF (o.SL n)])
  let groups := (groupReps nq key).map fun n =>
    " ".intercalate [showF (o.qn n), showF (groupMean nq key o.S n), showF (groupMean nq key o.ST n),
      showF (groupMean nq key o.SL n)]
  pure (" | ".intercalate ([showF margin ++ " " ++ showF (ratToFloat gap)] ++ rows ++ ["G"] ++ groups))

/-- `vcorr d N T nq dt ts[T] L[d] pos[T*N*d] A[T*N*d] nv[nq*d]` →
`margin gap lin | t[T] | spectra groups | FFT rows | T_FFT rows | L_FFT rows`
(each correlation row: `raw[0] corr[T]` for one wave vector) -/
def handleCorr (toks : List String) : Option String := do
  let (hd, rest) ← takeMap parseNatDigits 4 toks
  let d := hd.getD 0 0; let N := hd.getD 1 0; let T := hd.getD 2 0; let nq := hd.getD 3 0
  let (dts, rest) ← takeMap parseRat 1 rest
  let (tss, rest) ← takeMap parseInt T rest
  let (ls, rest) ← takeMap parseRat d rest
  let (xs, rest) ← takeMap parseRat (T*N*d) rest
  let (as, rest) ← takeMap parseRat (T*N*d) rest
  let (ns, rest) ← takeMap parseInt (nq*d) rest
  if !rest.isEmpty then none
  let dt := ratToFloat (dts.headD 0)
  let ts := arrFn tss
  let Lr := arrFn ls
  let nvI := arrFn2 ns d
  let L := arrFn (ls.map ratToFloat)
  let xa := (xs.map ratToFloat).toArray
  let aa := (as.map ratToFloat).toArray
  let nv := arrFn2 (ns.map Float.ofInt) d
  let frames := (List.range T).map fun t =>
    decompose d N nq L (fun i k => xa.getD ((t*N + i)*d + k) 0.0) (fun i k => aa.getD ((t*N + i)*d + k) 0.0) nv
  let fr := arrFn (frames.map some)
  let get (sel : DecOut → Nat → Nat → Cx) (n : Nat) : Nat → Nat → Cx :=
    fun t k => match fr t with | some o => sel o n k | none => 0
  let keyA := tab nq (qKey d Lr nvI)
  let key := look keyA
  let gap := keyGap nq key
  let lin := isLinear T ts
  let o0 ← frames.head?
  let mut margin : Float := 0.5
  for n in List.range nq do
    let m := roundMargin (o0.qn n)
    if m < margin then margin := m
  let tcol := (List.range T).map fun t => showF (Float.ofInt (ts t - ts 0) * dt)
  let spectra := (groupReps nq key).map fun n =>
    let avg (f : DecOut → Nat → Float) : Float :=
      frameMean T fun t => match fr t with | some o => groupMean nq key (f o) n | none => 0.0
    " ".intercalate [showF (o0.qn n), showF (avg (·.S)), showF (avg (·.ST)), showF (avg (·.SL))]
  let block (sel : DecOut → Nat → Nat → Cx) : List String :=
    (List.range nq).map fun n =>
      let c := get sel n
      let rA := tab T (fftCorr cxConj Cx.re T d lin (fun t n k => get sel n t k) n)
      let r := look rA
      " ".intercalate (showF (corrRaw cxConj Cx.re T d lin c 0) :: (List.range T).map fun t => showF (r t))
  pure (" | ".intercalate ([showF margin ++ " " ++ showF (ratToFloat gap) ++ " " ++ (if lin then "1" else "0")]
    ++ [" ".intercalate tcol] ++ ["G"] ++ spectra ++ ["F"] ++ block (·.F) ++ ["T"] ++ block (·.Tp) ++ ["L"] ++ block (·.Lp)))

end Pms.Vec
