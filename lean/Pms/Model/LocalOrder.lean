import Pms.Model.Pbc
/-!
Models for C17 — local order parameters (core Lean only, operation-polymorphic).

* `PyMatterSim/static/pairentropy.py`  : `s2_integral`, `S2.particle_s2`
* `PyMatterSim/static/geometric.py`    : `q8_tetrahedral`
* `PyMatterSim/static/nematic.py`      : `NematicOrder.tensor` (+ `utils/coarse_graining.py::spatial_average`)
* `PyMatterSim/static/shape.py`        : `gyration_tensor`

`Impl` definitions mirror the Python step by step; `Spec` definitions are the formulas of the
property statement.  `exp log sqrt log10 : α → α` and `pi : α` are parameters (instantiated with
Mathlib's real functions in `Props`, with `Float` functions in the driver); `np.argpartition`,
`np.linalg.eig` and the neighbour-file reader are parameters with a contract.
-/
namespace Pms.LocalOrder
open Pms

variable {α : Type} [Add α] [Sub α] [Mul α] [Div α] [Neg α] [OfNat α 0] [OfNat α 1] [NatCast α]

/-- `x ** n` / `np.power(x, n)` for a literal natural exponent -/
def powNat (x : α) : Nat → α
  | 0 => 1
  | n+1 => powNat x n * x

/-- `np.dot(u, v)` for vectors of length `d` -/
def dot (d : Nat) (u v : Nat → α) : α := sumRange d fun x => u x * v x

/-- `np.linalg.norm(v)` -/
def norm (sqrt : α → α) (d : Nat) (v : Nat → α) : α := sqrt (dot d v v)

/-! ## S2 — pairentropy.py -/

/-- `gr_bins = np.arange(ndelta) * rdelta + rdelta / 2` -/
def bin (rdelta : α) (k : Nat) : α := (k : α) * rdelta + rdelta / ((2 : Nat) : α)

/-- `funcs.grid_gaussian(x, sigma)`: `sigma2 = 2*sigma**2; exp(-x**2/sigma2)/sqrt(sigma2*pi)` -/
def gauss (exp sqrt : α → α) (pi x sigma : α) : α :=
  let sigma2 := ((2 : Nat) : α) * (sigma * sigma)
  exp (-(x * x) / sigma2) / sqrt (sigma2 * pi)

/-- `norms`: `2 r ρ π` (2-D) or `4 r² ρ π` (3-D) -/
def shell (d : Nat) (pi rho r : α) : α :=
  if d = 2 then ((2 : Nat) : α) * r * rho * pi else ((4 : Nat) : α) * (r * r) * rho * pi

/-- `np.trapz(y, x)` = `(diff(x) * (y[1:] + y[:-1]) / 2).sum()` -/
def trapz (n : Nat) (x y : Nat → α) : α :=
  sumRange (n - 1) fun k => (x (k + 1) - x k) * (y (k + 1) + y k) / ((2 : Nat) : α)

/-- `y = gr*log(gr) - gr + 1;  y *= gr_bins**(ndim-1)` -/
def integrand (log : α → α) (d : Nat) (g r : α) : α := (g * log g - g + 1) * powNat r (d - 1)

/-- `s2_integral(gr, gr_bins, ndim)` -/
def s2Integral (log : α → α) (d n : Nat) (g bins : Nat → α) : α :=
  trapz n bins fun k => integrand log d (g k) (bins k)

/-- index into an array from which row `i` was removed by `np.delete(·, i)` -/
def skip (i j : Nat) : Nat := if j < i then j else j + 1

/-- the compacted index list `np.arange(N-1)[condition]` -/
def keptList (N : Nat) (keep : Nat → Bool) : List Nat := (List.range (N - 1)).filter keep

/-- smeared particle g(r) at bin `k`, as the code computes it: loop over the kept entries of the
deleted-and-filtered arrays, accumulate `grid_gaussian(gr_bins - rij, sigma[itype, jtype])`, divide
by `norms`.  `dist`, `typ` are indexed by the ORIGINAL particle index; `keep j` is the `condition`
entry of the `j`-th row of the deleted array. -/
def grImplK (exp sqrt : α → α) (pi : α) (d N i : Nat) (rdelta rho : α) (dist : Nat → α)
    (typ : Nat → Nat) (sig : Nat → Nat → α) (keep : Nat → Bool) (k : Nat) : α :=
  (keptList N keep).foldl
      (fun acc j => acc + gauss exp sqrt pi (bin rdelta k - dist (skip i j)) (sig (typ i) (typ (skip i j)))) 0
    / shell d pi rho (bin rdelta k)

/-- `rmax = gr_bins.max()` (the bins increase) -/
def rmax (rdelta : α) (ndelta : Nat) : α := bin rdelta (ndelta - 1)

section withLT
variable [LT α] [DecidableLT α]

/-- the code's filter `distance < rmax` on the deleted array -/
def keepImpl (i : Nat) (dist : Nat → α) (rm : α) : Nat → Bool := fun j => decide (dist (skip i j) < rm)

/-- `S2.particle_s2` for particle `i` of one snapshot with the `condition` mask given -/
def s2ImplK (exp log sqrt : α → α) (pi : α) (d N i ndelta : Nat) (rdelta rho : α) (dist : Nat → α)
    (typ : Nat → Nat) (sig : Nat → Nat → α) (keep : Nat → Bool) : α :=
  let g := grImplK exp sqrt pi d N i rdelta rho dist typ sig keep
  let c : α := -(((d - 1 : Nat) : α))
  c * pi * rho * s2Integral log d ndelta g (bin rdelta)

/-- `S2.particle_s2` for particle `i` of one snapshot: `dist j` = minimum-image distance i–j,
mask = `distance < rmax` -/
def s2Impl (exp log sqrt : α → α) (pi : α) (d N i ndelta : Nat) (rdelta rho : α) (dist : Nat → α)
    (typ : Nat → Nat) (sig : Nat → Nat → α) : α :=
  s2ImplK exp log sqrt pi d N i ndelta rdelta rho dist typ sig (keepImpl i dist (rmax rdelta ndelta))

/-- Spec: the Gaussian-smeared per-particle pair distribution of the property statement -/
def gSpec (exp sqrt : α → α) (pi : α) (d N i ndelta : Nat) (rdelta rho : α) (dist : Nat → α)
    (typ : Nat → Nat) (sig : Nat → Nat → α) (k : Nat) : α :=
  (sumRange N fun j =>
      if j ≠ i ∧ dist j < rmax rdelta ndelta
      then gauss exp sqrt pi (bin rdelta k - dist j) (sig (typ i) (typ j)) else 0)
    / shell d pi rho (bin rdelta k)

/-- Spec: `-(d-1) π ρ ∫ (g ln g - g + 1) r^{d-1} dr` by the trapezoid rule on the bin centres -/
def s2Spec (exp log sqrt : α → α) (pi : α) (d N i ndelta : Nat) (rdelta rho : α) (dist : Nat → α)
    (typ : Nat → Nat) (sig : Nat → Nat → α) : α :=
  let g := gSpec exp sqrt pi d N i ndelta rdelta rho dist typ sig
  let r := bin rdelta
  let c : α := -(((d - 1 : Nat) : α) * pi * rho)
  c * sumRange (ndelta - 1) fun k =>
      (r (k + 1) - r k) *
        ((g (k + 1) * log (g (k + 1)) - g (k + 1) + 1) * powNat (r (k + 1)) (d - 1)
          + (g k * log (g k) - g k + 1) * powNat (r k) (d - 1)) / ((2 : Nat) : α)

end withLT

/-- minimum-image displacement i→j and its distance, as in `particle_s2` / `q8_tetrahedral` -/
def disp [IntCast α] (d : Nat) (rint : α → Int) (H Hinv : Nat → Nat → α) (ppp : Nat → α)
    (pos : Nat → Nat → α) (i j : Nat) : Nat → α :=
  Pbc.removePbc d rint H Hinv ppp (fun x => pos j x - pos i x)

/-- `rhototal = nparticle / np.prod(boxlength)` -/
def rhoTotal (d N : Nat) (L : Nat → α) : α :=
  (N : α) / foldRange d (fun acc x => acc * L x) 1

/-! ## tetrahedral order — geometric.py -/

/-- `(medium1 / medium2 + 1.0 / 3) ** 2` -/
def tetraTerm (c : α) : α := (c + 1 / ((3 : Nat) : α)) * (c + 1 / ((3 : Nat) : α))

/-- cosine of the angle between the displacement vectors to `a` and `b` -/
def cosPair (sqrt : α → α) (R : Nat → Nat → α) (a b : Nat) : α :=
  dot 3 (R a) (R b) / (norm sqrt 3 (R a) * norm sqrt 3 (R b))

/-- `q8_tetrahedral` for one particle: `R j` = minimum-image displacement to particle `j`,
`nb 0..3` = the four selected neighbours (`argpartition(distance, …)[:5]` without `i`). -/
def tetraImpl (sqrt : α → α) (R : Nat → Nat → α) (nb : Nat → Nat) : α :=
  let acc := pairLoop 4 fun j k => tetraTerm (cosPair sqrt R (nb j) (nb k))
  1 - ((3 : Nat) : α) / ((8 : Nat) : α) * acc / ((4 : Nat) : α)

/-- Σ over the pairs (a before b) of a list -/
def pairSumList (f : Nat → Nat → α) : List Nat → α
  | [] => 0
  | a :: t => (t.foldr (fun b acc => f a b + acc) 0) + pairSumList f t

/-- Spec: `1 - 3/32 Σ_{j<k} (cos ψ_jk + 1/3)²` over the (unordered) set of four neighbours -/
def tetraSpec (cos : Nat → Nat → α) (nbs : List Nat) : α :=
  1 - ((3 : Nat) : α) / ((32 : Nat) : α) *
    pairSumList (fun a b => (cos a b + 1 / ((3 : Nat) : α)) * (cos a b + 1 / ((3 : Nat) : α))) nbs

/-! ## nematic tensor — nematic.py -/

/-- `(ndim * mu[x] * mu[y] - kronecker(x, y)) / 2` -/
def qRaw (d : Nat) (u : Nat → α) (x y : Nat) : α :=
  ((d : α) * u x * u y - (if x = y then 1 else 0)) / ((2 : Nat) : α)

/-- `spatial_average`: `cg[i] = (Q[i] + Σ_{j in cnlist[i]} Q[j]) / (1 + cn_i)` -/
def cgAvg (Q : Nat → Nat → Nat → α) (nbr : Nat → List Nat) (i x y : Nat) : α :=
  (nbr i).foldl (fun acc j => acc + Q j x y) (Q i x y) / ((1 + (nbr i).length : Nat) : α)

/-- `np.trace(np.matmul(Q, Q))` -/
def traceSq (d : Nat) (Q : Nat → Nat → α) : α :=
  sumRange d fun x => sumRange d fun k => Q x k * Q k x

/-- `sqrt(trace(Q·Q) * (ndim / (ndim - 1)))` -/
def nematicTrace (sqrt : α → α) (d : Nat) (Q : Nat → Nat → α) : α :=
  sqrt (traceSq d Q * ((d : α) / ((d - 1 : Nat) : α)))

/-- `np.linalg.eig(Q)[0].max() * 2.0` given the largest eigenvalue -/
def nematicEig (lamMax : α) : α := lamMax * ((2 : Nat) : α)

/-- `np.trace(Q)` -/
def trace (d : Nat) (Q : Nat → Nat → α) : α := sumRange d fun x => Q x x

/-! ## gyration tensor — shape.py -/

/-- `pos_group.mean(axis=0)[m]` -/
def meanCol (N : Nat) (P : Nat → Nat → α) (m : Nat) : α := (sumRange N fun i => P i m) / (N : α)

/-- one entry `Smn / num_particles` after `pos_group -= center_of_mass` -/
def gyrEntry (N : Nat) (P : Nat → Nat → α) (m n : Nat) : α :=
  (sumRange N fun i => (P i m - meanCol N P m) * (P i n - meanCol N P n)) / (N : α)

/-- the loop over `combinations` (m ≤ n) with `results[m,n] = results[n,m] = Smn/N` -/
def gyrImpl (N : Nat) (P : Nat → Nat → α) (m n : Nat) : α :=
  if m ≤ n then gyrEntry N P m n else gyrEntry N P n m

/-- Spec: centred second-moment tensor `S_mn = (1/N) Σ_i (r_i - r̄)_m (r_i - r̄)_n` -/
def gyrSpec (N : Nat) (P : Nat → Nat → α) (m n : Nat) : α :=
  (sumRange N fun i => (P i m - meanCol N P m) * (P i n - meanCol N P n)) / (N : α)

/-- `radius_of_gyration = sqrt(principal_component.sum())` -/
def radGyr (sqrt : α → α) (d : Nat) (l : Nat → α) : α := sqrt (sumRange d l)

/-- `acylindricity = pc[1] - pc[0]` -/
def acyl (l : Nat → α) : α := l 1 - l 0

/-- `asphericity = 1.5 * pc[2] - 0.5 * pc.sum()` -/
def asph (l : Nat → α) : α :=
  ((3 : Nat) : α) / ((2 : Nat) : α) * l 2 - 1 / ((2 : Nat) : α) * sumRange 3 l

/-- `shape_anisotropy = (asphericity**2 + 0.75*acylindricity**2) / radius_of_gyration**4` -/
def aniso (sqrt : α → α) (l : Nat → α) : α :=
  (powNat (asph l) 2 + ((3 : Nat) : α) / ((4 : Nat) : α) * powNat (acyl l) 2) / powNat (radGyr sqrt 3 l) 4

/-- `fractal_dimension = log10(N) / log10(radius_of_gyration)` -/
def fractalDim (sqrt log10 : α → α) (d N : Nat) (l : Nat → α) : α :=
  log10 (N : α) / log10 (radGyr sqrt d l)

end Pms.LocalOrder
