-- DRIVER: pairf Pms.GenDriver.handlePairF
import Pms.Model.Io
import Pms.Gen.PairF
/-! Driver operations that evaluate regenerated Float terms (translator validation). -/
namespace Pms.GenDriver
open Pms.Io Pms.Gen.PairF

/-- `pairf <lj|ipl|hh> <shift 0/1> r eps sigma rc [n A | alpha]` (float bits) → `s1 s1rc s2` (bits) -/
def handlePairF (toks : List String) : Option String := do
  match toks with
  | kind :: sh :: rest =>
    let shift := sh == "1"
    let vals ← rest.mapM parseFloatBits
    match kind, vals with
    | "lj", [r, e, s, rc] =>
      pure s!"{showFloat (lj_s1 r e s rc shift)} {showFloat (lj_s1rc r e s rc shift)} {showFloat (lj_s2 r e s rc shift)}"
    | "ipl", [r, e, s, rc, n, a] =>
      pure s!"{showFloat (ipl_s1 r e s rc n a shift)} {showFloat (ipl_s1rc r e s rc n a shift)} {showFloat (ipl_s2 r e s rc n a shift)}"
    | "hh", [r, e, s, rc, al] =>
      pure s!"{showFloat (hh_s1 r e s rc al shift)} {showFloat (hh_s1rc r e s rc al shift)} {showFloat (hh_s2 r e s rc al shift)}"
    | _, _ => none
  | _ => none

end Pms.GenDriver
