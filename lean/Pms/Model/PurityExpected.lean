/-!
# C18 — the REVIEWED lists (hand-written; the regenerated lists in `Pms/Gen/Purity.lean` are decided equal to these
in `Pms/Props/C18.lean`, so a new public routine, a new attribute rebinding inside a method, a new process-global
setting, RNG use, an external process or a call of a callable argument breaks a theorem until it is reviewed here).
-/
namespace Pms.Purity

/-- every public routine of the anchored analysis modules (functions, constructors, public methods) -/
def expectedNames : List String := [
  "static.shape.gyration_tensor",
  "static.gr.conditional_gr",
  "static.gr.gr.__init__",
  "static.gr.gr.getresults",
  "static.gr.gr.unary",
  "static.gr.gr.binary",
  "static.gr.gr.ternary",
  "static.gr.gr.quarternary",
  "static.gr.gr.quinary",
  "static.sq.conditional_sq",
  "static.sq.sq.__init__",
  "static.sq.sq.getresults",
  "static.sq.sq.unary",
  "static.sq.sq.binary",
  "static.sq.sq.ternary",
  "static.sq.sq.quarternary",
  "static.sq.sq.quinary",
  "static.boo.boo_3d.__init__",
  "static.boo.boo_3d.qlm_Qlm",
  "static.boo.boo_3d.ql_Ql",
  "static.boo.boo_3d.sij_ql_Ql",
  "static.boo.boo_3d.w_W_cap",
  "static.boo.boo_3d.spatial_corr",
  "static.boo.boo_3d.time_corr",
  "static.boo.boo_2d.__init__",
  "static.boo.boo_2d.lthorder",
  "static.boo.boo_2d.time_average",
  "static.boo.boo_2d.spatial_corr",
  "static.boo.boo_2d.time_corr",
  "static.vector.participation_ratio",
  "static.vector.local_vector_alignment",
  "static.vector.phase_quotient",
  "static.vector.divergence_curl",
  "static.vector.vibrability",
  "static.vector.vector_decomposition_sq",
  "static.vector.vector_fft_corr",
  "static.geometric.packing_capability_2d",
  "static.geometric.q8_tetrahedral",
  "static.nematic.NematicOrder.__init__",
  "static.nematic.NematicOrder.tensor",
  "static.nematic.NematicOrder.spatial_corr",
  "static.nematic.NematicOrder.time_corr",
  "static.pairentropy.s2_integral",
  "static.pairentropy.S2.__init__",
  "static.pairentropy.S2.particle_s2",
  "static.pairentropy.S2.spatial_corr",
  "static.pairentropy.S2.time_corr",
  "static.hessians.PairInteractions.__init__",
  "static.hessians.PairInteractions.caller",
  "static.hessians.PairInteractions.lennard_jones",
  "static.hessians.PairInteractions.inverse_power_law",
  "static.hessians.PairInteractions.harmonic_hertz",
  "static.hessians.HessianMatrix.__init__",
  "static.hessians.HessianMatrix.pair_matrix",
  "static.hessians.HessianMatrix.diagonalize_hessian",
  "dynamic.dynamics.cage_relative",
  "dynamic.dynamics.Dynamics.__init__",
  "dynamic.dynamics.Dynamics.relaxation",
  "dynamic.dynamics.Dynamics.sq4",
  "dynamic.dynamics.LogDynamics.__init__",
  "dynamic.dynamics.LogDynamics.relaxation",
  "dynamic.time_corr.time_correlation",
  "utils.coarse_graining.time_average",
  "utils.coarse_graining.spatial_average",
  "utils.coarse_graining.gaussian_blurring",
  "utils.funcs.kronecker",
  "utils.funcs.nidealfac",
  "utils.funcs.areafac",
  "utils.funcs.alpha2factor",
  "utils.funcs.moment_of_inertia",
  "utils.funcs.Wignerindex",
  "utils.funcs.grid_gaussian",
  "utils.funcs.Legendre_polynomials",
  "utils.fft.Filon_COS",
  "utils.geometry.triangle_area",
  "utils.geometry.triangle_angle",
  "utils.geometry.lines_intersection",
  "utils.geometry.LineWithinSquare",
  "utils.pbc.remove_pbc",
  "utils.wavevector.wavevector3d",
  "utils.wavevector.wavevector2d",
  "utils.wavevector.choosewavevector",
  "utils.wavevector.continuousvector",
  "utils.fitting.fits",
  "neighbors.calculate_neighbors.Nnearests",
  "neighbors.calculate_neighbors.cutoffneighbors",
  "neighbors.calculate_neighbors.cutoffneighbors_particletype",
  "neighbors.freud_neighbors.convert_configuration",
  "neighbors.freud_neighbors.cal_neighbors",
  "neighbors.freud_neighbors.VolumeMatrix"]

/-- methods that REBIND an attribute of their object (no array is modified; the attribute is object state):
`tensor`/`particle_s2` are the documented first phase of their class (`spatial_corr`/`time_corr` read what they set);
`relaxation` overwrites `q_const` with a value computed from its arguments before every use -/
def expectedStateWrites : List String := [
  "static.nematic.NematicOrder.tensor:QIJ",
  "static.pairentropy.S2.particle_s2:s2_results",
  "dynamic.dynamics.Dynamics.relaxation:q_const",
  "dynamic.dynamics.LogDynamics.relaxation:q_const"]

/-- process-global settings touched: numpy print options are set to the same constants on every call -/
def expectedGlobalEffects : List String := [
  "neighbors.calculate_neighbors.Nnearests:np.set_printoptions"]

/-- calls whose purity is an assumption about the CALLER's callable (`fits` passes the user's model function to scipy) -/
def expectedAssumptions : List String := [
  "utils.fitting.fits:callable-argument:curve_fit",
  "utils.fitting.fits:callable-argument:fit_func"]

end Pms.Purity
