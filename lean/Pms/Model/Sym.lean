import Pms.Model.Prelude
import Pms.Model.Pbc
/-!
Model for C07 — the symmetry group acting on configurations (core Lean only, operation-polymorphic).

A configuration is what every analysis routine reads: positions `pos i k` (particle, axis), types `ty i`,
cell `H`, its inverse `Hinv`, the periodicity mask `ppp`, box lengths `box`.  The generators of the group of
property C07 are the functions below.  The SAME definitions are

* executed at `Rat` by the driver op `sym` (Pms/Model/SymDriver.lean): the harness transforms every input of a
  metamorphic run with numpy AND with these definitions and compares, so the transformations that are *tested* on the
  real code are the transformations the theorems of `Pms/Props/C07.lean` *quantify over*;
* reasoned about over any ordered field / ℝ / ℂ in `Pms/Props/C07.lean`, where they are plugged into the `Spec`s of
  C02 (removePbc), C03 (g), C04 (S), C05 (neighbour lists), C06 (relaxation), C10 (ψ_l), C11 (Hessian),
  C15 (participation ratio), C17 (tetrahedral order, S2, gyration tensor).
-/
namespace Pms.Sym
open Pms

section
variable {α : Type} [Add α] [Sub α] [Mul α] [OfNat α 0] [IntCast α]

/-- rigid translation of all particles by the vector `c` -/
def translate (pos : Nat → Nat → α) (c : Nat → α) : Nat → Nat → α := fun i k => pos i k + c k

/-- the lattice vector Σ_a m_a · ppp_a · H_a  (row-vector convention of `remove_pbc`: r = f·H) -/
def latticeVec (d : Nat) (H : Nat → Nat → α) (ppp : Nat → α) (m : Nat → Int) : Nat → α :=
  Pbc.vecMul d (fun a => ((m a : Int) : α) * ppp a) H

/-- every particle `i` is shifted by its own whole number `m i a` of cell vectors along the periodic axes -/
def latticeShift (d : Nat) (H : Nat → Nat → α) (ppp : Nat → α) (m : Nat → Nat → Int)
    (pos : Nat → Nat → α) : Nat → Nat → α :=
  fun i k => pos i k + latticeVec d H ppp (m i) k

/-- relabelling: the particle stored at row `i` of the new arrays is the old particle `σ i` -/
def relabel {β : Type} (σ : Nat → Nat) (x : Nat → β) : Nat → β := fun i => x (σ i)

/-- swapping the species labels `a` and `b` -/
def swapLabel (a b t : Nat) : Nat := if t = a then b else if t = b then a else t

def swapTypes (a b : Nat) (ty : Nat → Nat) : Nat → Nat := fun i => swapLabel a b (ty i)

/-- permutation of the coordinate axes: new axis `k` is old axis `π k` (positions, box lengths, mask) -/
def permAxes (π : Nat → Nat) (pos : Nat → Nat → α) : Nat → Nat → α := fun i k => pos i (π k)
def permVec {β : Type} (π : Nat → Nat) (v : Nat → β) : Nat → β := fun k => v (π k)
/-- … and of the cell matrix / its inverse (rows and columns) -/
def permMat (π : Nat → Nat) (M : Nat → Nat → α) : Nat → Nat → α := fun a k => M (π a) (π k)

/-- a linear map applied to one vector: (R v)_k = Σ_a R_ka v_a -/
def matVec (d : Nat) (R : Nat → Nat → α) (v : Nat → α) : Nat → α :=
  fun k => sumRange d fun a => R k a * v a

/-- rotation (any linear map) of all particle positions -/
def rotate (d : Nat) (R : Nat → Nat → α) (pos : Nat → Nat → α) : Nat → Nat → α :=
  fun i => matVec d R (pos i)

/-- R Rᵀ entry (k, l): the driver checks `R Rᵀ = 1` exactly on the rational rotations it is given -/
def gram (d : Nat) (R : Nat → Nat → α) (k l : Nat) : α := sumRange d fun a => R k a * R l a

/-- dilation by the factor `s` (positions, cell, box lengths, bin width) -/
def dilate (s : α) (pos : Nat → Nat → α) : Nat → Nat → α := fun i k => s * pos i k
def dilateVec (s : α) (v : Nat → α) : Nat → α := fun k => s * v k

/-- plain dot product and squared norm of d-vectors -/
def dot (d : Nat) (u v : Nat → α) : α := sumRange d fun k => u k * v k

/-- wave-vector phase θ = Σ_k (n_k · twopidl_k) · r_k  (sq.py: `(qvector * positions[i]).sum(axis=1)` with
`qvector = n * twopidl`) -/
def theta (d : Nat) (n : Nat → Int) (twopidl : Nat → α) (r : Nat → α) : α :=
  sumRange d fun k => (((n k : Int) : α) * twopidl k) * r k

end
end Pms.Sym
