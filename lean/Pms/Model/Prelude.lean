/-!
Core-only prelude shared by every executable model (no Mathlib import, so the
driver can be compiled).  Arrays are index functions `Nat → α`; numpy reductions are
`sumRange`; `acc[k] += v` is `upd`; `for` loops are `foldRange`.
-/
namespace Pms

/-- Σ_{i<n} f i, executable for any additive type with zero -/
def sumRange {α : Type} [Add α] [OfNat α 0] : Nat → (Nat → α) → α
  | 0, _ => 0
  | n+1, f => sumRange n f + f n

/-- functional array update: acc[k] += v -/
def upd {α : Type} [Add α] (acc : Nat → α) (k : Nat) (v : α) : Nat → α :=
  fun j => if j = k then acc j + v else acc j

/-- functional array assignment: acc[k] = v -/
def set {α : Type} (acc : Nat → α) (k : Nat) (v : α) : Nat → α :=
  fun j => if j = k then v else acc j

/-- fold over 0..n-1 -/
def foldRange {σ : Type} : Nat → (σ → Nat → σ) → σ → σ
  | 0, _, s => s
  | n+1, f, s => f (foldRange n f s) n

/-- the double loop of dynamics.py / time_corr.py:
    for n in range(T): for nn in range(n+1): acc[nn] += F n nn -/
def originLoop {α : Type} [Add α] (T : Nat) (F : Nat → Nat → α) (acc0 : Nat → α) : Nat → α :=
  foldRange T (fun acc n => foldRange (n+1) (fun acc nn => upd acc nn (F n nn)) acc) acc0

/-- the `for i in range(n-1): for j in range(i+1, n)` pair loop as a double sum -/
def pairLoop {α : Type} [Add α] [OfNat α 0] (n : Nat) (f : Nat → Nat → α) : α :=
  sumRange n fun i => sumRange n fun j => if i < j then f i j else 0

/-- tabulate an index function into an array so that repeated reads are O(1) -/
def memo {α : Type} [Inhabited α] (n : Nat) (f : Nat → α) : Nat → α :=
  let a := Array.ofFn (n := n) (fun i => f i.val)
  fun i => if h : i < a.size then a[i] else f i

def memo2 {α : Type} [Inhabited α] (n m : Nat) (f : Nat → Nat → α) : Nat → Nat → α :=
  let a := Array.ofFn (n := n) (fun i => Array.ofFn (n := m) (fun j => f i.val j.val))
  fun i j => if h : i < a.size then (if h2 : j < a[i].size then a[i][j] else f i j) else f i j

/-- half-even rounding on `Rat` (numpy `rint`, Python `round`) -/
def ratRint (x : Rat) : Int :=
  let f := x.floor
  let r := x - (f : Rat)
  if r < 1/2 then f else if 1/2 < r then f + 1 else (if f % 2 = 0 then f else f + 1)

end Pms
