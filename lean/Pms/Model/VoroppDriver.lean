-- DRIVER: voropp Pms.VoroppDriver.handle
import Pms.Model.Io
import Pms.Model.Voropp
/-! Driver operations for the voro++ post-processing (EXTRA). -/
namespace Pms.VoroppDriver
open Pms.Io Pms.Voropp

def showInts (l : List Int) : String := " ".intercalate (l.map fun (x : Int) => s!"{x}")

/-- `voropp walls <impl|spec> no nb[no] nf fa[nf] ov[4]` → `nb… | fa… | ov…` or `error`
    (`nb = id cn n_1 …`, `fa = id cn f_1 …`, `ov = id cn volume area`; the index part of the line is copied verbatim by the code and
    is not sent).  `spec` needs id > 0, cn > 0 and as many areas as neighbours; otherwise `outside-spec`.
    `voropp his nlines len_1 toks… len_2 toks…` → `k1,k2,k3,k4:freq;…` (exact rationals) -/
def handle (toks : List String) : Option String := do
  match toks with
  | "walls" :: mode :: rest =>
    let (a, rest) ← takeMap parseNatDigits 1 rest
    let (nb, rest) ← takeMap parseInt (a.headD 0) rest
    let (b, rest) ← takeMap parseNatDigits 1 rest
    let (fa, rest) ← takeMap parseRat (b.headD 0) rest
    let (ov, rest) ← takeMap parseRat 4 rest
    if !rest.isEmpty then none
    let out : Option Out ←
      if mode == "spec" then
        (match nb, fa with
         | id :: cn :: nbrs, _ :: _ :: areas =>
           if id > 0 ∧ cn > 0 ∧ nbrs.length = areas.length then some (some (wallsSpec id nbrs areas (ov.getD 2 0))) else some none
         | _, _ => some none)
      else some (wallsImpl { ov := ov, idx := "", nb := nb, fa := fa })
    match out with
    | none => pure (if mode == "spec" then "outside-spec" else "error")
    | some o => pure (showInts o.nb ++ " | " ++ joinRat o.fa ++ " | " ++ joinRat o.ov)
  | "his" :: n :: rest =>
    let n ← parseNatDigits n
    let rec go : Nat → List String → Option (List (List Int))
      | 0, [] => some []
      | 0, _ :: _ => none
      | k + 1, ts => do
          let (l, ts) ← takeMap parseNatDigits 1 ts
          let (row, ts) ← takeMap parseInt (l.headD 0) ts
          let more ← go k ts
          pure (row :: more)
    let lines ← go n rest
    let rows := indiceHis lines
    pure (s!"{rows.length} " ++ ";".intercalate (rows.map fun p => ",".intercalate (p.1.map fun (x : Int) => s!"{x}") ++ ":" ++ showRat p.2))
  | _ => none

end Pms.VoroppDriver
