-- DRIVER: extraf Pms.ExtraDriver.handleExtraF
import Pms.Model.Io
import Pms.Gen.ExtraF
/-! Driver op evaluating the regenerated Float terms of `translator/gens/extra.py` (numeric validation of the translation). -/
namespace Pms.ExtraDriver
open Pms.Io Pms.Gen.ExtraF

/-- `extraf li x1 y1 x2 y2 x3 y3 x4 y4` → `Px Py` ; `extraf angle a b c` → `cos_theta` ; `extraf area a b c` → `radicand` ;
`extraf leg x nd` → value   (floats as raw bits) -/
def handleExtraF (toks : List String) : Option String := do
  match toks with
  | kind :: rest =>
    let v ← rest.mapM parseFloatBits
    match kind, v with
    | "li", [x1, y1, x2, y2, x3, y3, x4, y4] =>
      let d := li_D x1 y1 x2 y2 x3 y3 x4 y4
      pure s!"{showFloat (li_PxNum x1 y1 x2 y2 x3 y3 x4 y4 / d)} {showFloat (li_PyNum x1 y1 x2 y2 x3 y3 x4 y4 / d)}"
    | "angle", [a, b, c] => pure (showFloat (ta_cos a b c))
    | "area", [a, b, c] => pure (showFloat (tr_rad (tr_p a b c) a b c))
    | "leg", [x, nd] => pure (showFloat (legendre2 x nd))
    | _, _ => none
  | _ => none

end Pms.ExtraDriver
