-- DRIVER: extraf Pms.ExtraDriver.handleExtraF
-- DRIVER: filonf Pms.ExtraDriver.handleFilonF
import Pms.Model.Io
import Pms.Gen.ExtraF
import Pms.Gen.FilonF
/-! Driver op evaluating the regenerated Float terms of `translator/gens/extra.py` (numeric validation of the translation). -/
namespace Pms.ExtraDriver
open Pms.Io Pms.Gen.ExtraF

/-- `extraf li x1 y1 x2 y2 x3 y3 x4 y4` → `Px Py` ; `extraf angle a b c` → `cos_theta` ; `extraf area a b c` → `radicand` ;
`extraf leg x nd` → value   (floats as raw bits) -/
def handleExtraF (toks : List String) : Option String := do
  match toks with
  | kind :: rest =>
    let v ← rest.mapM parseFloatBits
    match kind, v with
    | "li", [x1, y1, x2, y2, x3, y3, x4, y4] =>
      let d := li_D x1 y1 x2 y2 x3 y3 x4 y4
      pure s!"{showFloat (li_PxNum x1 y1 x2 y2 x3 y3 x4 y4 / d)} {showFloat (li_PyNum x1 y1 x2 y2 x3 y3 x4 y4 / d)}"
    | "angle", [a, b, c] => pure (showFloat (ta_cos a b c))
    | "area", [a, b, c] => pure (showFloat (tr_rad (tr_p a b c) a b c))
    | "leg", [x, nd] => pure (showFloat (legendre2 x nd))
    | _, _ => none
  | _ => none

/-- `Filon_COS` at one frequency (before `/= np.pi`), assembled from the regenerated Float terms exactly like `Pms.Filon.value`:
samples C_0 … C_2m, time step dt, first and last time -/
def filonValue (C : Array Float) (dt ω t0 tl : Float) : Float :=
  let n := C.size
  let θ := ω * dt
  let θ2 := θ * θ
  let θ3 := θ * θ2
  let a := if θ == 0 then Gen.FilonF.alpha0 else Gen.FilonF.alpha θ θ2 θ3
  let b := if θ == 0 then Gen.FilonF.beta0 else Gen.FilonF.beta θ θ2 θ3
  let g := if θ == 0 then Gen.FilonF.gamma0 else Gen.FilonF.gamma θ θ2 θ3
  let term := fun (i : Nat) => C[i]! * Float.cos (ω * i.toFloat * dt)
  let ev := (List.range ((n + 1) / 2)).foldl (fun acc k => acc + term (2 * k)) 0.0
  let od := (List.range ((n - 1) / 2)).foldl (fun acc k => acc + term (2 * k + 1)) 0.0
  let cl := C[n - 1]!
  let c0 := C[0]!
  Gen.FilonF.comb dt a b g cl c0 (Float.sin (ω * tl)) (Float.sin (ω * t0))
    (ev - Gen.FilonF.endCorr cl c0 (Float.cos (ω * tl)) (Float.cos (ω * t0))) od

/-- `filonf dt omega t0 tlast C_0 … C_2m` (floats as raw bits) → value -/
def handleFilonF (toks : List String) : Option String := do
  let v ← toks.mapM parseFloatBits
  match v with
  | dt :: ω :: t0 :: tl :: cs =>
    if cs.length % 2 == 0 || cs.length < 3 then none
    else pure (showFloat (filonValue cs.toArray dt ω t0 tl))
  | _ => none

end Pms.ExtraDriver
