import Pms.Model.Prelude
/-!
Model of `PyMatterSim/utils/pbc.py::remove_pbc`:
  matrixij = RIJ · inv(hmatrix);  return (matrixij − rint(matrixij) * ppp) · hmatrix
`np.linalg.inv` is a parameter (`Hinv`), `np.rint` is a parameter (`rint`).
-/
namespace Pms.Pbc
open Pms
variable {α : Type} [Add α] [Sub α] [Mul α] [OfNat α 0] [IntCast α]

/-- row-vector times matrix: (v·M)_k = Σ_i v_i M_ik -/
def vecMul (d : Nat) (v : Nat → α) (M : Nat → Nat → α) : Nat → α :=
  fun k => sumRange d fun i => v i * M i k

/-- remove_pbc: (f - rint(f)*ppp)·H with f = r·Hinv -/
def removePbc (d : Nat) (rint : α → Int) (H Hinv : Nat → Nat → α) (ppp : Nat → α) (r : Nat → α) : Nat → α :=
  let f := vecMul d r Hinv
  vecMul d (fun i => f i - ((rint (f i) : Int) : α) * ppp i) H

/-- fractional coordinates `r · Hinv` -/
def frac (d : Nat) (Hinv : Nat → Nat → α) (r : Nat → α) : Nat → α := vecMul d r Hinv

end Pms.Pbc
