-- DRIVER: purity Pms.Purity.handlePurity
import Pms.Model.Purity
import Pms.Model.Io
import Pms.Gen.Purity
/-! Driver op for C18: verdict of the Lean analysis on the regenerated IR of one routine.
`purity <name>` → `ok|bad <nstmts> <ntainted> w:<written-and-returned vars> o:<offending statements>` ;
`purity *` → the list of routine names. -/
namespace Pms.Purity
open Pms.Io

def showStmt : Stmt → String
  | .fresh x => s!"fresh:{x}"
  | .alias x _ => s!"alias:{x}"
  | .store x _ => s!"store:{x}"
  | .mutate x => s!"mutate:{x}"
  | .write x => s!"write:{x}"
  | .ret _ => "ret"

def handlePurity (toks : List String) : Option String := do
  match toks with
  | ["*"] => pure (" ".intercalate (Pms.Gen.Purity.routines.map (·.name)))
  | [name] =>
    let r ← Pms.Gen.Purity.routines.find? (·.name == name)
    let okc := check r.prog r.params
    let okw := writesOk r.prog
    let offs := (offenders r.prog r.params).map showStmt
    let t := taint r.prog r.params
    let wr := (writesReturned r.prog).map toString
    pure s!"{if okc then "ok" else "bad"} {if okw then "wok" else "wbad"} {r.prog.length} {t.length} w:{",".intercalate wr} o:{",".intercalate offs}"
  | _ => none

end Pms.Purity
