-- DRIVER: tcorr Pms.TimeCorr.handleTcorr
import Pms.Model.TimeCorr
import Pms.Model.Io
import Pms.Gen.TimeCorr
/-! Driver operation for C14 (exact ℚ): runs the interpreter on the REGENERATED program (`impl`) or the Spec (`spec`). -/
namespace Pms.TimeCorr
open Pms Pms.Io

def absRat (x : Rat) : Rat := if x < 0 then -x else x

/-- `tcorr impl|spec shapeLen T N d1 d2 cplx dt ts[T] vals[T*N*d1*d2*(1|2)]`
   → `ok margin even t[T] corr[T]` | `div0 even t[T]` (lag-0 value is zero) | `novalue` (no branch: ValueError) -/
def handleTcorr (toks : List String) : Option String := do
  match toks with
  | mode :: rest =>
    let (hd, rest) ← takeMap parseNatDigits 6 rest
    let shapeLen := hd.getD 0 0
    let T := hd.getD 1 0
    let N := hd.getD 2 0
    let d1 := hd.getD 3 0
    let d2 := hd.getD 4 0
    let cplx := hd.getD 5 0
    let (dtl, rest) ← takeMap parseRat 1 rest
    let dt := dtl.headD 0
    let (tsl, rest) ← takeMap parseRat T rest
    let w := if cplx = 0 then 1 else 2
    let (vs, rest) ← takeMap parseRat (T * N * d1 * d2 * w) rest
    if !rest.isEmpty then none
    let ts := arrFn tsl
    let arr := vs.toArray
    let A : Series Rat := fun t i a b =>
      let p := ((t * N + i) * d1 + a) * d2 + b
      if cplx = 0 then ⟨arr.getD p 0, 0⟩ else ⟨arr.getD (2 * p) 0, arr.getD (2 * p + 1) 0⟩
    let prog := Pms.Gen.TimeCorr.program
    let times := (List.range T).map fun k =>
      if mode = "spec" then specTime ts dt k else Pms.Gen.TimeCorr.timeAxis ts dt k
    -- scale for the conditioning guard: Σ |entries|²
    let scale : Rat := vs.foldl (fun s v => s + v * v) 0
    let finish (even : Bool) (raw : Nat → Rat) (r0 : Rat) : String :=
      let e := if even then "1" else "0"
      if r0 = 0 then s!"div0 {e} {joinRat times}"
      else
        let margin := absRat r0 / scale
        let vals := (List.range T).map fun k => raw k / r0
        s!"ok {showRat margin} {e} {joinRat times} {joinRat vals}"
    if mode = "impl" then
      let even := prog.detect.eval ts T
      match prog.select shapeLen even with
      | none => pure "novalue"
      | some b =>
        let raw := memo T (b.raw T N d1 d2 A)
        pure (finish even raw (raw prog.normIndex))
    else if mode = "spec" then
      if shapeLen < 2 ∨ shapeLen > 4 then pure "novalue"
      else
        let even := evenlyB ts T
        let raw : Nat → Rat := memo T (if even then specLinear shapeLen T N d1 d2 A else specLog shapeLen N d1 d2 A)
        pure (finish even raw (raw 0))
    else none
  | _ => none

end Pms.TimeCorr
