-- DRIVER: pbc Pms.Pbc.handlePbc
import Pms.Model.Pbc
import Pms.Model.Io
/-! Driver operations for C02 (exact ℚ). -/
namespace Pms.Pbc
open Pms Pms.Io

/-- exact inverse for d ≤ 3 by the adjugate (the driver-side stand-in for `np.linalg.inv`) -/
def inverse (d : Nat) (H : Nat → Nat → Rat) : Nat → Nat → Rat :=
  match d with
  | 1 => fun _ _ => 1 / H 0 0
  | 2 =>
    let det := H 0 0 * H 1 1 - H 0 1 * H 1 0
    fun i j => (match i, j with
      | 0, 0 => H 1 1 | 0, 1 => -H 0 1 | 1, 0 => -H 1 0 | 1, 1 => H 0 0 | _, _ => 0) / det
  | 3 =>
    let c (i j : Nat) : Rat :=
      let r0 := (i + 1) % 3; let r1 := (i + 2) % 3
      let c0 := (j + 1) % 3; let c1 := (j + 2) % 3
      H r0 c0 * H r1 c1 - H r0 c1 * H r1 c0
    let det := H 0 0 * c 0 0 + H 0 1 * c 0 1 + H 0 2 * c 0 2
    fun i j => if i < 3 ∧ j < 3 then c j i / det else 0
  | _ => fun _ _ => 0

def absRat (x : Rat) : Rat := if x < 0 then -x else x

/-- distance of `x` from the nearest half-integer: the margin of the `rint` decision -/
def tieMargin (x : Rat) : Rat :=
  let y := x - 1/2
  absRat (y - (ratRint y : Rat))

/-- `pbc d H[d*d] ppp[d] n r[n*d]` → `margin out[n*d]` -/
def handlePbc (toks : List String) : Option String := do
  let (dl, rest) ← takeMap parseNatDigits 1 toks
  let d := dl.headD 0
  if d = 0 ∨ d > 3 then none
  let (hs, rest) ← takeMap parseRat (d*d) rest
  let (ps, rest) ← takeMap parseRat d rest
  let (nl, rest) ← takeMap parseNatDigits 1 rest
  let n := nl.headD 0
  let (rs, rest) ← takeMap parseRat (n*d) rest
  if !rest.isEmpty then none
  let H := arrFn2 hs d
  let Hinv := memo2 d d (inverse d H)
  let ppp := arrFn ps
  let R := arrFn2 rs d
  let mut outs : List Rat := []
  let mut margin : Rat := 1
  for i in List.range n do
    let r := R i
    let out := removePbc d ratRint H Hinv ppp r
    let f := frac d Hinv r
    for k in List.range d do
      outs := out k :: outs
      if ppp k ≠ 0 then
        let mg := tieMargin (f k)
        if mg < margin then margin := mg
  pure (showRat margin ++ " " ++ joinRat outs.reverse)

end Pms.Pbc
