-- DRIVER: pack2d Pms.PackDriver.handle
import Pms.Model.Pack
import Pms.Model.LocalOrderDriver
import Pms.Gen.ExtraF
/-! Driver operation for `packing_capability_2d` (EXTRA): exact ℚ minimum-image vectors (C02's model, margin of every `rint`),
neighbour rows cut as `read_neighbors(f, N, 20)` cuts them, angles in `Float`; the reference angles are the REGENERATED
`triangle_angle` term (`Pms.Gen.ExtraF.ta_cos`). -/
namespace Pms.PackDriver
open Pms.Io Pms.LocalOrder Pms.Pack

/-- `pack2d N K Nmax H[4] ppp[2] sig[K*K] typ[N](0-based) pos[N*2] rows…(cn n_1 … n_cn, 0-based ids, per particle)`
→ `margin mindist value[N]` (exact, exact, float bits; a particle with cn = 0 gives `nan`) -/
def handle (toks : List String) : Option String := do
  let (hd, rest) ← takeMap parseNatDigits 3 toks
  let N := hd.getD 0 0; let K := hd.getD 1 0; let Nmax := hd.getD 2 0
  let (hs, rest) ← takeMap parseRat 4 rest
  let (ps, rest) ← takeMap parseRat 2 rest
  let (sg, rest) ← takeMap parseRat (K * K) rest
  let (ty, rest) ← takeMap parseNatDigits N rest
  let (xs, rest) ← takeMap parseRat (N * 2) rest
  let (rows, rest) ← takeRows N rest
  if !rest.isEmpty then none
  let hsA := hs.toArray; let psA := ps.toArray; let xsA := xs.toArray
  let sgA := (sg.map ratToFloat).toArray; let tyA := ty.toArray
  let rowsA := (rows.map fun r => r.take Nmax).toArray
  let (R, m0) := allDisp 2 N (look2 hsA 2) (look psA) (look2 xsA 2)
  let RfA := Array.ofFn (n := N * N * 2) fun t => ratToFloat (R (t.val / (2 * N)) ((t.val / 2) % N) (t.val % 2))
  let disp : Nat → Nat → Nat → Float := fun o i x => RfA.getD ((o * N + i) * 2 + x) 0
  let nb : Nat → List Nat := fun k => rowsA.getD k []
  let cn : Nat → Nat := fun k => (rowsA.getD k []).length
  let sig : Nat → Nat → Float := fun a b => sgA.getD (a * K + b) 0
  let ref : Nat → Nat → Nat → Float := fun o i j => Float.acos (Pms.Gen.ExtraF.ta_cos (sig o i) (sig o j) (sig i j))
  let typ : Nat → Nat := fun k => tyA.getD k 0
  -- smallest squared length of a vector that is normalised (a zero vector would be 0/0)
  let mut dmin : Rat := 1000000
  for o in List.range N do
    for i in nb o do
      let d2 := R o i 0 * R o i 0 + R o i 1 * R o i 1
      dmin := minRat dmin d2
  let vals := (List.range N).map fun o => packing Float.acos Float.sqrt Float.abs disp nb cn ref typ o
  pure (showRat m0 ++ " " ++ showRat dmin ++ " " ++ " ".intercalate (vals.map showFloat))

end Pms.PackDriver
