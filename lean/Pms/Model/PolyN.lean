import Pms.Model.Sph
/-!
Core-only multivariate polynomial arithmetic over ℚ for kernel-decided polynomial identities
(`decide +kernel`): a polynomial in n variables is a nested coefficient list — `List C` is a
polynomial in one more variable with coefficients in `C`.  Used for the spherical-harmonic
ADDITION THEOREM (C07 rotation invariance of q_l, C09 reference crystals):

  Σ_{a=0}^{l} N_{l,a} · Ê_a(A, (1−X₁²)(1−X₂²)) · D^aP_l(X₁) · D^aP_l(X₂)  =  (2l+1)/4 · P_l(X₁X₂ + A)

as a FREE identity in the three variables X₁ = ẑ₁, X₂ = ẑ₂, A = x̂₁x̂₂ + ŷ₁ŷ₂, where Ê_0 = 1 and, for a ≥ 1,
Ê_a = E_a with E_0 = 2, E_1 = 2A, E_{a+1} = 2A·E_a − n·E_{a−1}  (so that ζ^a + conj ζ^a = E_a(Re ζ, |ζ|²)).
-/
namespace Pms.PolyN
open Pms.Sph

/-- coefficient domains: ℚ, and lists over a coefficient domain -/
class Coef (C : Type) where
  add : C → C → C
  mul : C → C → C
  zero : C
  isZ : C → Bool

instance : Coef Rat := ⟨(· + ·), (· * ·), 0, (· == 0)⟩

section
variable {C : Type} [Coef C]

def gadd : List C → List C → List C
  | [], q => q
  | p, [] => p
  | a :: p, b :: q => Coef.add a b :: gadd p q

def gscale (t : C) : List C → List C
  | [] => []
  | a :: p => Coef.mul t a :: gscale t p

/-- product; zero coefficients of the left factor are skipped -/
def gmul : List C → List C → List C
  | [], _ => []
  | a :: p, q => if Coef.isZ a then Coef.zero :: gmul p q else gadd (gscale a q) (Coef.zero :: gmul p q)

def gallZ : List C → Bool
  | [] => true
  | a :: p => Coef.isZ a && gallZ p

instance : Coef (List C) := ⟨gadd, gmul, [], gallZ⟩

end

/-- trivariate polynomials: outer variable A, then X₂, innermost X₁ -/
abbrev P1 := List Rat
abbrev P2 := List P1
abbrev P3 := List P2

def c3 (c : Rat) : P3 := [[[c]]]
/-- a polynomial in X₁ -/
def inX1 (p : List Rat) : P3 := [[p]]
/-- a polynomial in X₂ -/
def inX2 (p : List Rat) : P3 := [p.map fun c => [c]]
def varA : P3 := [[], [[1]]]

def add3 (p q : P3) : P3 := Coef.add p q
def mul3 (p q : P3) : P3 := Coef.mul p q

def pow3 (p : P3) : Nat → P3
  | 0 => c3 1
  | n+1 => mul3 p (pow3 p n)

/-- n = (1 − X₁²)(1 − X₂²) -/
def nPoly : P3 := mul3 (inX1 [1, 0, -1]) (inX2 [1, 0, -1])

/-- (E_a, E_{a+1}) by the recurrence -/
def ePair : Nat → P3 × P3
  | 0 => (c3 2, mul3 (c3 2) varA)
  | a+1 =>
    let (e0, e1) := ePair a
    (e1, add3 (mul3 (mul3 (c3 2) varA) e1) (mul3 (c3 (-1)) (mul3 nPoly e0)))

def ePoly (a : Nat) : P3 := (ePair a).1

/-- Ê_a -/
def eHat (a : Nat) : P3 := if a = 0 then c3 1 else ePoly a

/-- p(Q) for a univariate p and a trivariate Q (Horner) -/
def compose (Q : P3) : List Rat → P3
  | [] => []
  | a :: p => add3 (c3 a) (mul3 Q (compose Q p))

def addLhsTerm (l a : Nat) : P3 :=
  mul3 (c3 (normSq l a)) (mul3 (eHat a) (mul3 (inX1 (legendreD l a)) (inX2 (legendreD l a))))

def addLhs (l : Nat) : P3 :=
  (List.range (l + 1)).foldl (fun acc a => add3 acc (addLhsTerm l a)) []

def addRhs (l : Nat) : P3 :=
  mul3 (c3 ((2 * (l : Rat) + 1) / 4)) (compose (add3 (mul3 (inX1 [0, 1]) (inX2 [0, 1])) varA) (legendre l))

/-- the decidable check: LHS − RHS has only zero coefficients -/
def additionOK (l : Nat) : Bool :=
  Coef.isZ (add3 (addLhs l) (mul3 (c3 (-1)) (addRhs l)))

end Pms.PolyN
