import Pms.Gen.Lws
/-!
Model of `PyMatterSim/utils/geometry.py::LineWithinSquare` (core only; EXTRA): which edge of the quadrilateral P1 P2 P3 P4 the ray
from R0 towards R1 = R0 − vector is intersected with.  The if / elif chain is DATA regenerated from the source; `arctan2` is a
parameter (`Float.atan2` in the driver).  The intersection point itself is `lines_intersection` (EXTRA, `E_lines_intersection`).
-/
namespace Pms.Lws

variable {α : Type} [Sub α] [Neg α] [LT α] [LE α] [DecidableLT α] [DecidableLE α]

/-- the edge (x, y) (0-based corner indices) chosen by the chain -/
def chooseEdge (branches : List (Nat × Nat × Nat × Nat)) (els : Nat × Nat) (theta : α) (ang : Nat → α) : Nat × Nat :=
  match branches.find? (fun b => decide (ang b.1 < theta) && decide (theta ≤ ang b.2.1)) with
  | some b => (b.2.2.1, b.2.2.2)
  | none => els

/-- `theta` and `angles` as the code computes them: P = corners (row k = P_{k+1}), R0, vector -/
def edgeOf (atan2 : α → α → α) (branches : List (Nat × Nat × Nat × Nat)) (els : Nat × Nat)
    (P : Nat → Nat → α) (R0 v : Nat → α) : Nat × Nat :=
  chooseEdge branches els (atan2 (-(v 1)) (-(v 0))) (fun k => atan2 (P k 1 - R0 1) (P k 0 - R0 0))

end Pms.Lws
