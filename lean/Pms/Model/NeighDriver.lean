-- DRIVER: nbr Pms.Neigh.handleNbr
-- DRIVER: nd2 Pms.Neigh.handleD2
-- DRIVER: nread Pms.Neigh.handleRead
import Pms.Model.Neigh
import Pms.Model.PbcDriver
import Pms.Model.Io
/-! Driver operations for C05 (exact ℚ). -/
namespace Pms.Neigh
open Pms Pms.Io Pms.Pbc

structure Geo where
  d : Nat
  H : Nat → Nat → Rat
  Hinv : Nat → Nat → Rat
  ppp : Nat → Rat
  n : Nat
  T : Nat
  /-- frame → particle → axis -/
  pos : Nat → Nat → Nat → Rat
  /-- exact squared distances, tabulated once: index (t*n + i)*n + j -/
  d2tab : Array Rat

/-- `d H[d*d] ppp[d] n T pos[T*n*d]` -/
def parseGeo (toks : List String) : Option (Geo × List String) := do
  let (dl, rest) ← takeMap parseNatDigits 1 toks
  let d := dl.headD 0
  if d = 0 ∨ d > 3 then none
  let (hs, rest) ← takeMap parseRat (d*d) rest
  let (ps, rest) ← takeMap parseRat d rest
  let (nl, rest) ← takeMap parseNatDigits 2 rest
  let n := nl.headD 0
  let T := nl.getD 1 0
  let (rs, rest) ← takeMap parseRat (T*n*d) rest
  let H := arrFn2 hs d
  let hinvA : Array Rat := Array.ofFn (n := d*d) fun ix => inverse d H (ix.val / d) (ix.val % d)
  let Hinv : Nat → Nat → Rat := fun i j => hinvA.getD (i*d + j) 0
  let ppp := arrFn ps
  let a := rs.toArray
  let pos : Nat → Nat → Nat → Rat := fun t i k => a.getD ((t*n + i)*d + k) 0
  let tab : Array Rat := Array.ofFn (n := T*n*n) fun ix =>
    let t := ix.val / (n*n); let r := ix.val % (n*n)
    dist2 d ratRint H Hinv ppp (pos t) (r / n) (r % n)
  pure ({ d := d, H := H, Hinv := Hinv, ppp := ppp, n := n, T := T, pos := pos, d2tab := tab }, rest)

/-- exact squared-distance matrix of frame `t` (reads the table) -/
def Geo.d2 (g : Geo) (t : Nat) : Nat → Nat → Rat :=
  fun i j => g.d2tab.getD ((t*g.n + i)*g.n + j) 0

/-- smallest distance of any `rint` argument (periodic axes, all ordered pairs) from a half-integer -/
def Geo.rintMargin (g : Geo) : Rat := Id.run do
  let mut m : Rat := 1
  for t in List.range g.T do
    for i in List.range g.n do
      for j in List.range g.n do
        let f := frac g.d g.Hinv (fun k => g.pos t j k - g.pos t i k)
        for k in List.range g.d do
          if g.ppp k ≠ 0 then
            let mg := tieMargin (f k)
            if mg < m then m := mg
  return m

/-- smallest gap between two *different* squared distances from one centre (exact ties are reported
by `nd2` and compared as groups by the harness) -/
def Geo.gapMargin (g : Geo) : Rat := Id.run do
  let mut m : Rat := 1
  for t in List.range g.T do
    let D := g.d2 t
    for i in List.range g.n do
      for j in List.range g.n do
        for k in List.range j do
          let gap := absRat (D i j - D i k)
          if gap ≠ 0 ∧ gap < m then m := gap
  return m

def showLines (ls : Lines) : String := " | ".intercalate (ls.map (" ".intercalate ·))

/-- `nbr nn d H ppp n T pos N` | `nbr cut … rc` | `nbr ctype … K rc[K*K] types[T*n]`
→ `rintMargin gapMargin cutMargin cutMargin0 raise|line | line | …` (all frames, as written to one\nfile).  gapMargin / cutMargin ignore exact ties (compared as groups / judged on the dyadic stream);\ncutMargin0 includes them. -/
def handleNbr (toks : List String) : Option String := do
  let mode ← toks.head?
  let (g, rest) ← parseGeo (toks.drop 1)
  let base := showRat g.rintMargin ++ " " ++ showRat g.gapMargin
  match mode with
  | "nn" =>
    let (nl, rest) ← takeMap parseNatDigits 1 rest
    if !rest.isEmpty then none
    let N := nl.headD 0
    let frames := (List.range g.T).map fun t =>
      Impl.nnearestFrame apartSort sortBy (g.d2 t) g.n N
    if frames.any Option.isNone then pure (base ++ " 1 1 raise")
    else pure (base ++ " 1 1 " ++ showLines (frames.flatMap fun f => f.getD []))
  | "cut" =>
    let (rl, rest) ← takeMap parseRat 1 rest
    if !rest.isEmpty then none
    let rc := rl.headD 0
    let rc2 := rc * rc
    let mut m : Rat := 1
    let mut m0 : Rat := 1
    for t in List.range g.T do
      for i in List.range g.n do
        for j in List.range g.n do
          if i ≠ j then
            let mg := absRat (g.d2 t i j - rc2)
            if mg < m0 then m0 := mg
            if mg ≠ 0 ∧ mg < m then m := mg
    let frames := (List.range g.T).map fun t => Impl.cutoffFrame sortBy (g.d2 t) rc2 g.n
    pure (base ++ " " ++ showRat m ++ " " ++ showRat m0 ++ " " ++ showLines frames.flatten)
  | "ctype" =>
    let (kl, rest) ← takeMap parseNatDigits 1 rest
    let K := kl.headD 0
    let (rl, rest) ← takeMap parseRat (K*K) rest
    let (tl, rest) ← takeMap parseNatDigits (g.T * g.n) rest
    if !rest.isEmpty then none
    let rcm := arrFn2 rl K
    let rc2 : Nat → Nat → Rat := fun a b => rcm a b * rcm a b
    let tys := tl.toArray
    let ty : Nat → Nat → Nat := fun t i => tys.getD (t * g.n + i) 0
    let mut m : Rat := 1
    let mut m0 : Rat := 1
    for t in List.range g.T do
      for i in List.range g.n do
        for j in List.range g.n do
          if i ≠ j then
            let mg := absRat (g.d2 t i j - rc2 (ty t i - 1) (ty t j - 1))
            if mg < m0 then m0 := mg
            if mg ≠ 0 ∧ mg < m then m := mg
    let frames := (List.range g.T).map fun t => Impl.cutoffTypeFrame sortBy (g.d2 t) rc2 (ty t) g.n
    pure (base ++ " " ++ showRat m ++ " " ++ showRat m0 ++ " " ++ showLines frames.flatten)
  | _ => none

/-- `nd2 d H ppp n T pos` → `rintMargin d2[t][i][j] …` (exact) -/
def handleD2 (toks : List String) : Option String := do
  let (g, rest) ← parseGeo toks
  if !rest.isEmpty then none
  let mut out : List Rat := []
  for t in List.range g.T do
    let D := g.d2 t
    for i in List.range g.n do
      for j in List.range g.n do
        out := D i j :: out
  pure (showRat g.rintMargin ++ " " ++ joinRat out.reverse)

/-- split a token list at the separator token `|` -/
def splitBar : List String → Lines
  | [] => [[]]
  | t :: ts =>
    match splitBar ts with
    | [] => [[]]
    | l :: ls => if t = "|" then [] :: l :: ls else (t :: l) :: ls

def pNumRat (s : String) : Rat := (parseRat s).getD 0

/-- `nread n k Nmax₁ … Nmax_k | line | line | …`
→ `F ok nrows ncols v… | F … | R remaining` : successive `read_neighbors` calls on one handle -/
def handleRead (toks : List String) : Option String := do
  let (nk, rest) ← takeMap parseNatDigits 2 toks
  let n := nk.headD 0
  let k := nk.getD 1 0
  let (nmaxs, rest) ← takeMap parseNatDigits k rest
  let f : Lines := match rest with
    | "|" :: r => splitBar r
    | [] => []
    | _ => [["?"]]
  let mut h := f
  let mut outs : List String := []
  for Nmax in nmaxs do
    let ok := frameOk h n
    let r := Impl.readNeighbors pNumRat h n Nmax
    let ncol := (r.1.headD []).length
    outs := s!"F {if ok then 1 else 0} {r.1.length} {ncol} {joinRat r.1.flatten}" :: outs
    h := r.2
  pure (" | ".intercalate (outs.reverse ++ [s!"R {h.length}"]))

end Pms.Neigh
