import Pms.Model.Prelude
/-!
Core-only vocabulary of the REGENERATED g(r) tables (`Pms/Gen/Gr.lean`, written by
`translator/gens/gr.py` from `PyMatterSim/static/gr.py` and `utils/funcs.py`):

* `Sel`   — the species-pair selector `distance[(countsum == a) & (countsub == b)]`, deep embedded;
* `NExpr` — the arithmetic of the normalisation right-hand sides and of the attributes derived in
            `gr.__init__`, deep embedded, with an operation-polymorphic evaluator (ℚ in the driver,
            any field in the theorems);
* `Col`, `Method`, `Defs`, `Cmp` — one accumulated column, one of `unary … quinary`, the derived
            attributes, one row of the `getresults` dispatch;
* the decidable table checks that `Props/C03.lean` closes with `decide +kernel`.
-/
namespace Pms.Gr

/-- selector on `countsum = t_j + t_i` and `countsub = |t_j − t_i|` -/
inductive Sel
  | all                       -- no mask: `distance`
  | sum (s : Nat)             -- `countsum == s`
  | sub (d : Nat)             -- `countsub == d`
  | and (p q : Sel)           -- `p & q`
deriving DecidableEq, Repr, Inhabited

def absDiff (x y : Nat) : Nat := if x ≥ y then x - y else y - x

def Sel.eval : Sel → Nat → Nat → Bool
  | .all, _, _ => true
  | .sum s, x, y => x + y == s
  | .sub d, x, y => absDiff x y == d
  | .and p q, x, y => p.eval x y && q.eval x y

/-- names the translator recognises inside an arithmetic right-hand side -/
inductive Atom
  | count      -- grresults["<this column>"] (the raw accumulated histogram)
  | nsnap      -- self.nsnapshots
  | npart      -- self.nparticle
  | boxvolume  -- self.boxvolume
  | rhototal   -- self.rhototal
  | nidealfac  -- self.nidealfac
  | nideal     -- local `nideal`
  | pi         -- np.pi
  | binleft    -- local `binleft`  (left edges of the histogram bins)
  | binright   -- local `binright` (right edges)
  | rdelta     -- self.rdelta
  | prodbox    -- np.prod(self.snapshots.snapshots[0].boxlength)
  | minbox     -- self.snapshots.snapshots[0].boxlength.min()
  | tcElem     -- self.typecount used as a whole vector (element-wise), in `rhotype = typecount / boxvolume`
deriving DecidableEq, Repr, Inhabited

inductive NExpr
  | atom (a : Atom)
  | tc (i : Nat)              -- self.typecount[i]
  | rho (i : Nat)             -- self.rhotype[i]
  | lit (n : Nat)             -- 2, 2.0, 4.0 …  (non-integral literals are emitted as quotients)
  | add (x y : NExpr)
  | sub (x y : NExpr)
  | mul (x y : NExpr)
  | div (x y : NExpr)
  | pow (x : NExpr) (n : Nat) -- x ** <literal>
  | powNdim (x : NExpr)       -- x ** self.ndim
deriving DecidableEq, Repr, Inhabited

/-- everything an `NExpr` can mention -/
structure Env (α : Type) where
  count : α
  nsnap : α
  npart : α
  boxvolume : α
  rhototal : α
  nidealfac : α
  nideal : α
  pi : α
  binleft : α
  binright : α
  rdelta : α
  prodbox : α
  minbox : α
  tcElem : α
  typecount : Nat → α
  rhotype : Nat → α
  ndim : Nat

section eval
variable {α : Type} [Add α] [Sub α] [Mul α] [Div α] [NatCast α]

/-- x^n by repeated multiplication (core only) -/
def npow (x : α) : Nat → α
  | 0 => ((1 : Nat) : α)
  | n+1 => npow x n * x

def Env.get (e : Env α) : Atom → α
  | .count => e.count | .nsnap => e.nsnap | .npart => e.npart | .boxvolume => e.boxvolume
  | .rhototal => e.rhototal | .nidealfac => e.nidealfac | .nideal => e.nideal | .pi => e.pi
  | .binleft => e.binleft | .binright => e.binright | .rdelta => e.rdelta | .prodbox => e.prodbox
  | .minbox => e.minbox | .tcElem => e.tcElem

def NExpr.eval (e : Env α) : NExpr → α
  | .atom a => e.get a
  | .tc i => e.typecount i
  | .rho i => e.rhotype i
  | .lit n => (n : α)
  | .add x y => x.eval e + y.eval e
  | .sub x y => x.eval e - y.eval e
  | .mul x y => x.eval e * y.eval e
  | .div x y => x.eval e / y.eval e
  | .pow x n => npow (x.eval e) n
  | .powNdim x => npow (x.eval e) e.ndim
end eval

/-- atoms an expression mentions (used to check the definition order of the derived attributes) -/
def NExpr.atoms : NExpr → List Atom
  | .atom a => [a]
  | .tc _ | .lit _ => []
  | .rho _ => []
  | .add x y | .sub x y | .mul x y | .div x y => x.atoms ++ y.atoms
  | .pow x _ | .powNdim x => x.atoms

def NExpr.usesRho : NExpr → Bool
  | .rho _ => true
  | .atom _ | .tc _ | .lit _ => false
  | .add x y | .sub x y | .mul x y | .div x y => x.usesRho || y.usesRho
  | .pow x _ | .powNdim x => x.usesRho

/-- one accumulated column: `grresults[name] += histogram(distance[sel])`, later `grresults[name] = norm`.
`a b` are the species the NAME announces (`gr12` ↦ 1 2; the total `gr` ↦ 0 0). -/
structure Col where
  name : String
  a : Nat
  b : Nat
  sel : Sel
  norm : NExpr
deriving DecidableEq, Repr, Inhabited

/-- one of `unary … quinary` -/
structure Method where
  name : String
  columns : List String      -- the DataFrame column list
  cols : List Col            -- accumulated columns in source order
  nideal : NExpr             -- `nideal = …`
  r : NExpr                  -- `grresults["r"] = …`
deriving DecidableEq, Repr, Inhabited

/-- attributes derived in `gr.__init__` + `funcs.nidealfac` -/
structure Defs where
  boxvolume : NExpr
  rhototal : NExpr
  rhotype : NExpr
  maxbinArg : NExpr                 -- the argument of `int(…)`
  nidealfac : List (Nat × NExpr)    -- `if ndim == n: return e` rows, in source order
deriving Repr, Inhabited

inductive Cmp | eq | gt
deriving DecidableEq, Repr, Inhabited

def Cmp.eval : Cmp → Nat → Nat → Bool
  | .eq, x, n => x == n
  | .gt, x, n => x > n

/-- first matching row of `getresults` -/
def dispatchEval : List (Cmp × Nat × String) → Nat → Option String
  | [], _ => none
  | (c, n, m) :: rest, k => if c.eval k n then some m else dispatchEval rest k

def lookupNat {β : Type} : List (Nat × β) → Nat → Option β
  | [], _ => none
  | (k, v) :: rest, n => if k == n then some v else lookupNat rest n

def findMethod (ms : List Method) (name : String) : Option Method := ms.find? (·.name == name)

/-! ### decidable table checks -/

/-- the documented partial columns of a K-species system: the K diagonal ones, then a<b lexicographically -/
def expectedPairs (K : Nat) : List (Nat × Nat) :=
  ((List.range K).map fun a => (a+1, a+1)) ++
  ((List.range K).flatMap fun a => ((List.range K).filter (fun b => a < b)).map fun b => (a+1, b+1))

def pairName (p : Nat × Nat) : String := s!"gr{p.1}{p.2}"

/-- documented DataFrame columns: r, gr, gr11 … -/
def expectedColumns (K : Nat) : List String :=
  if K ≤ 1 then ["r", "gr"] else ["r", "gr"] ++ (expectedPairs K).map pairName

/-- the method's column list is the documented one; the accumulated columns are exactly the non-`r`
columns in the same order; every name announces its species pair; the first column is the total -/
def columnsOK (K : Nat) (m : Method) : Bool :=
  m.columns == expectedColumns K &&
  m.cols.map (·.name) == m.columns.drop 1 &&
  (m.cols.map fun c => (c.a, c.b)) == ((0, 0) :: (if K ≤ 1 then [] else expectedPairs K)) &&
  m.cols.all fun c => c.name == (if c.a == 0 then "gr" else pairName (c.a, c.b))

/-- selector accepts exactly the unordered pair {a,b} among types 1..K (total: accepts everything) -/
def selOK (K : Nat) (c : Col) : Bool :=
  (List.range K).all fun x => (List.range K).all fun y =>
    c.sel.eval (x+1) (y+1) ==
      (if c.a == 0 then true else ((x+1 == c.a && y+1 == c.b) || (x+1 == c.b && y+1 == c.a)))

/-- every unordered species pair is accepted by exactly one partial column -/
def partitionOK (K : Nat) (m : Method) : Bool :=
  (List.range K).all fun x => (List.range K).all fun y =>
    ((m.cols.filter fun c => c.a != 0 && c.sel.eval (x+1) (y+1)).length == 1)

/-- name of the method that must serve a K-species system -/
def methodNameFor (K : Nat) : String :=
  match K with
  | 1 => "unary" | 2 => "binary" | 3 => "ternary" | 4 => "quarternary" | 5 => "quinary" | _ => "unary"

end Pms.Gr
