import Pms.Model.Prelude
/-!
Core-only model for C08: polynomials over ℚ as coefficient lists (constant term first),
Legendre polynomials by Rodrigues' formula, the normalisation constants of the orthonormal
Condon–Shortley spherical harmonics, and the shape of a closed-form table entry
`c · √(s/π) · e^{i m φ} · sin^k θ · p(cos θ)`.
-/
namespace Pms.Sph

/-- Horner evaluation, operation-polymorphic -/
def polyEval {α : Type} [Add α] [Mul α] [OfNat α 0] : List α → α → α
  | [], _ => 0
  | a :: p, x => a + x * polyEval p x

def padd : List Rat → List Rat → List Rat
  | [], q => q
  | p, [] => p
  | a :: p, b :: q => (a + b) :: padd p q

def pscale (t : Rat) : List Rat → List Rat
  | [] => []
  | a :: p => (t * a) :: pscale t p

def pmul : List Rat → List Rat → List Rat
  | [], _ => []
  | a :: p, q => padd (pscale a q) (0 :: pmul p q)

def ppow (p : List Rat) : Nat → List Rat
  | 0 => [1]
  | n+1 => pmul p (ppow p n)

def derivAux : Nat → List Rat → List Rat
  | _, [] => []
  | n, a :: p => ((n : Rat) * a) :: derivAux (n+1) p

def pderiv : List Rat → List Rat
  | [] => []
  | _ :: p => derivAux 1 p

def iter {β : Type} (f : β → β) : Nat → β → β
  | 0, p => p
  | n+1, p => iter f n (f p)

def trim (p : List Rat) : List Rat := (p.reverse.dropWhile (· == 0)).reverse

def fact : Nat → Nat
  | 0 => 1
  | n+1 => (n+1) * fact n

/-- Rodrigues: P_l = 1/(2^l l!) D^l (x²−1)^l -/
def legendre (l : Nat) : List Rat :=
  trim (pscale (1 / ((2 ^ l * fact l : Nat) : Rat)) (iter pderiv l (ppow [-1, 0, 1] l)))

/-- D^k P_l -/
def legendreD (l k : Nat) : List Rat := trim (iter pderiv k (legendre l))

/-- N_{l,k} = (2l+1)/4 · (l−k)!/(l+k)!  (so that the prefactor is √(N/π)) -/
def normSq (l k : Nat) : Rat := (2 * (l : Rat) + 1) / 4 * (fact (l - k) : Rat) / (fact (l + k) : Rat)

/-- sign convention: (−1)^m for m ≥ 0, +1 for m < 0 -/
def sgn (m : Int) : Rat := if m ≥ 0 then (if m.natAbs % 2 = 0 then 1 else -1) else 1

/-- one closed form of the table: `c · √(s/π) · e^{i m φ} · sin^k θ · p(cos θ)` -/
structure Entry where
  c : Rat
  s : Rat
  m : Int
  k : Nat
  p : List Rat
deriving Repr, DecidableEq

/-- decidable check that an entry is Y_{l,m} up to the trivial rescaling
`c·√s·p = (c t)·√s·(p/t)`: same order, same power of sin, polynomial proportional to D^{|m|}P_l with
factor `t`, and `(sgn·c·t)²·s = N_{l,|m|}` with `sgn·c·t ≥ 0`. -/
def entryT (l : Nat) (m : Int) (e : Entry) : Rat :=
  match e.p.getLast?, (legendreD l m.natAbs).getLast? with
  | some a, some b => a / b
  | _, _ => 0

def entryOK (l : Nat) (m : Int) (e : Entry) : Bool :=
  e.m == m && e.k == m.natAbs && e.p == pscale (entryT l m e) (legendreD l m.natAbs) && decide (0 < e.s) &&
  decide (0 ≤ sgn m * e.c * entryT l m e) &&
  ((sgn m * e.c * entryT l m e) * (sgn m * e.c * entryT l m e) * e.s == normSq l m.natAbs)

/-- the whole table of degree l is in the order m = −l..l and every entry is right -/
def rowOK (l : Nat) (row : List Entry) : Bool :=
  row.length == 2 * l + 1 &&
  (List.range (2 * l + 1)).all fun i =>
    match row[i]? with
    | some e => entryOK l ((i : Int) - (l : Int)) e
    | none => false

def tableOK (tab : List (Nat × List Entry)) : Bool :=
  tab.map (·.1) == [1, 2, 3, 4, 5, 6, 7, 8, 9, 10] && tab.all fun r => rowOK r.1 r.2

/-- Σ_{m=-l}^{l} |Y_lm|² · π as a polynomial in x = cos θ (sin² = 1 − x²) -/
def unsoldPoly (l : Nat) : List Rat :=
  trim ((List.range (l+1)).foldl (fun acc k =>
    let d := legendreD l k
    padd acc (pscale (normSq l k * (if k = 0 then 1 else 2)) (pmul (ppow [1, 0, -1] k) (pmul d d)))) [])

/-- Bonnet: (n+1) P_{n+1} = (2n+1) x P_n − n P_{n−1} -/
def bonnetOK (n : Nat) : Bool :=
  trim (pscale ((n : Rat) + 1) (legendre (n+1)))
    == trim (padd (pscale (2 * (n : Rat) + 1) (0 :: legendre n)) (pscale (-(n : Rat)) (if n = 0 then [] else legendre (n-1))))

end Pms.Sph
