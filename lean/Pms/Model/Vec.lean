import Pms.Model.Prelude
import Pms.Model.Pbc
/-!
Model of `PyMatterSim/static/vector.py` (C15), core Lean only.

`Impl` definitions mirror the numpy code statement by statement; `Spec` definitions are the
formulas of the property statement.  Arrays are index functions; the neighbour table
(`read_neighbors`) is input data: `cn i` = number of neighbours of particle `i`
(`cnlist[i,0]`), `nb i j` = id of its `j`-th neighbour (`cnlist[i,1+j]`).

Real part: any type with the field operations (`Rat` in the driver, an ordered field in the
theorems).  Fourier part: a real type `α` and a complex type `C` with the primitives
`ofReal`, `conj`, `re`, `expNegI θ = e^{-iθ}` and `sqrtf` passed as parameters
(`Float`/`Cx Float` in the driver, `ℝ`/`ℂ` in the theorems).
-/
namespace Pms.Vec
open Pms

section Real
variable {α : Type} [Add α] [Sub α] [Mul α] [Div α] [Neg α] [OfNat α 0] [OfNat α 1] [NatCast α]

/-- `(a * b).sum()` over the last axis -/
def dot (d : Nat) (a b : Nat → α) : α := sumRange d fun k => a k * b k

/-- `np.square` -/
def sq (x : α) : α := x * x

/-- `|e_i|²` -/
def norm2 (d : Nat) (v : Nat → Nat → α) (i : Nat) : α := dot d (v i) (v i)

/-! ### participation_ratio -/

/-- vector.py L38-42:
`value_PR = 1.0 / (np.sum(np.square((vector*vector).sum(axis=1))) * N); value_PR *= np.square((vector*vector).sum())` -/
def prImpl (N d : Nat) (v : Nat → Nat → α) : α :=
  let value_PR : α := 1 / ((sumRange N fun i => sq (sumRange d fun k => v i k * v i k)) * (N : α))
  value_PR * sq (sumRange N fun i => sumRange d fun k => v i k * v i k)

/-- the property's formula `(Σ|e|²)² / (N Σ|e|⁴)` -/
def prSpec (N d : Nat) (v : Nat → Nat → α) : α :=
  sq (sumRange N fun i => norm2 d v i) / ((N : α) * sumRange N fun i => sq (norm2 d v i))

/-! ### local_vector_alignment / phase_quotient -/

/-- `medium = (vector[i] * vector[cnlist[i, 1:1+cn]]).sum(axis=1)`; entry `j` -/
def medium (d : Nat) (v : Nat → Nat → α) (nb : Nat → Nat → Nat) (i j : Nat) : α :=
  sumRange d fun k => v i k * v (nb i j) k

/-- `results[i] = medium.mean()` -/
def alignImpl (d : Nat) (v : Nat → Nat → α) (cn : Nat → Nat) (nb : Nat → Nat → Nat) (i : Nat) : α :=
  (sumRange (cn i) fun j => medium d v nb i j) / ((cn i : Nat) : α)

variable [LT α] [DecidableLT α]

/-- `np.abs` -/
def absv (x : α) : α := if x < 0 then -x else x

/-- `sum_0` after the loop over particles -/
def pqNum (N d : Nat) (v : Nat → Nat → α) (cn : Nat → Nat) (nb : Nat → Nat → Nat) : α :=
  foldRange N (fun s i => s + sumRange (cn i) fun j => medium d v nb i j) 0

/-- `sum_1` after the loop over particles -/
def pqDen (N d : Nat) (v : Nat → Nat → α) (cn : Nat → Nat) (nb : Nat → Nat → Nat) : α :=
  foldRange N (fun s i => s + sumRange (cn i) fun j => absv (medium d v nb i j)) 0

/-- `return sum_0 / sum_1` -/
def pqImpl (N d : Nat) (v : Nat → Nat → α) (cn : Nat → Nat) (nb : Nat → Nat → Nat) : α :=
  pqNum N d v cn nb / pqDen N d v cn nb

end Real

/-! ### divergence_curl -/
section DivCurl
variable {α : Type} [Add α] [Sub α] [Mul α] [Div α] [OfNat α 0] [NatCast α] [IntCast α]

/-- `RIJ[j] = remove_pbc(positions[nb] - positions[i], hmatrix, ppp)` -/
def rij (d : Nat) (rint : α → Int) (H Hinv : Nat → Nat → α) (ppp : Nat → α)
    (pos : Nat → Nat → α) (i n : Nat) : Nat → α :=
  Pbc.removePbc d rint H Hinv ppp (fun k => pos n k - pos i k)

/-- `UIJ[j] = vector[nb] - vector[i]` -/
def uij (v : Nat → Nat → α) (i n : Nat) : Nat → α := fun k => v n k - v i k

/-- `np.cross` of two 3-vectors, component `k` -/
def cross (a b : Nat → α) (k : Nat) : α :=
  match k with
  | 0 => a 1 * b 2 - a 2 * b 1
  | 1 => a 2 * b 0 - a 0 * b 2
  | 2 => a 0 * b 1 - a 1 * b 0
  | _ => 0

/-- `divergence[i] = (RIJ * UIJ).sum(axis=1).mean()` -/
def divImpl (d : Nat) (rint : α → Int) (H Hinv : Nat → Nat → α) (ppp : Nat → α)
    (pos v : Nat → Nat → α) (cn : Nat → Nat) (nb : Nat → Nat → Nat) (i : Nat) : α :=
  (sumRange (cn i) fun j =>
      sumRange d fun k => rij d rint H Hinv ppp pos i (nb i j) k * uij v i (nb i j) k)
    / ((cn i : Nat) : α)

/-- `for j in range(cn): curl[i] += np.cross(RIJ[j], UIJ[j])` then `curl[i] /= cn` -/
def curlImpl (rint : α → Int) (H Hinv : Nat → Nat → α) (ppp : Nat → α)
    (pos v : Nat → Nat → α) (cn : Nat → Nat) (nb : Nat → Nat → Nat) (i : Nat) : Nat → α :=
  let acc := foldRange (cn i)
    (fun (acc : Nat → α) j => fun k =>
      acc k + cross (rij 3 rint H Hinv ppp pos i (nb i j)) (uij v i (nb i j)) k)
    (fun _ => 0)
  fun k => acc k / ((cn i : Nat) : α)

end DivCurl

/-! ### vibrability -/
section Vib
variable {α : Type} [Add α] [Mul α] [Div α] [OfNat α 0]

/-- `for i in range(M): medium = eigenvectors[:, i].reshape(N, -1);
     results += np.square(medium).sum(axis=1) / eigenvalues[i]` with `eigenvalues = ω²`;
`E r i` = component `r` of mode `i` (column `i`), `d` = row length after the reshape -/
def vibImpl (M d : Nat) (ω : Nat → α) (E : Nat → Nat → α) : Nat → α :=
  foldRange M
    (fun (res : Nat → α) i => fun p => res p + (sumRange d fun k => sq (E (p * d + k) i)) / sq (ω i))
    (fun _ => 0)

/-- eigenvalue-weighted mode sum `Σ_modes |e_mode,p|² / λ_mode`, `λ = ω²` -/
def vibSpec (M d : Nat) (ω : Nat → α) (E : Nat → Nat → α) (p : Nat) : α :=
  sumRange M fun i => (sumRange d fun k => E (p * d + k) i * E (p * d + k) i) / (ω i * ω i)

end Vib

/-! ### Fourier transform of a vector field, longitudinal / transverse split -/
section Fourier
variable {α C : Type} [Add α] [Mul α] [Div α] [OfNat α 0] [OfNat α 2] [NatCast α]
  [Add C] [Sub C] [Mul C] [Div C] [OfNat C 0]

/-- sq.py L57-58: `twopidl = 2*np.pi/boxlength; qvector = qvector.astype(float) * twopidl` -/
def qvec (pi : α) (L : Nat → α) (nq : Nat → Nat → α) (n k : Nat) : α := nq n k * (2 * pi / L k)

/-- `sqresults["q"] = np.linalg.norm(qvector, axis=1)` -/
def qnorm (sqrtf : α → α) (d : Nat) (q : Nat → Nat → α) (n : Nat) : α :=
  sqrtf (sumRange d fun k => q n k * q n k)

/-- `thetas = (qvector * positions[i]).sum(axis=1)` -/
def theta (d : Nat) (q pos : Nat → Nat → α) (n i : Nat) : α := sumRange d fun k => q n k * pos i k

/-- sq.py L76-82: `exp_thetas = Σ_i exp(-1j*thetas) * condition[i]; exp_thetas /= sqrt(N)`:
component `k` of the transform at wave vector `n` -/
def mode (ofReal : α → C) (expNegI : α → C) (sqrtf : α → α) (N d : Nat)
    (q pos A : Nat → Nat → α) (n k : Nat) : C :=
  (sumRange N fun i => expNegI (theta d q pos n i) * ofReal (A i k)) / ofReal (sqrtf (N : α))

/-- `(X * np.conj(X)).sum(axis=1).real` -/
def specOf (conj : C → C) (re : C → α) (d : Nat) (X : Nat → C) : α :=
  re (sumRange d fun k => X k * conj (X k))

/-- vector.py L198-199: `unitq = q_columns / q` -/
def unitq (sqrtf : α → α) (d : Nat) (q : Nat → Nat → α) (n k : Nat) : α := q n k / qnorm sqrtf d q n

/-- vector.py L203-204: `medium = np.dot(unitq[n], fft[n]); vector_L[n] = unitq[n] * medium` -/
def longPart (ofReal : α → C) (d : Nat) (u : Nat → α) (F : Nat → C) (k : Nat) : C :=
  ofReal (u k) * sumRange d fun j => ofReal (u j) * F j

/-- vector.py L205: `vector_T = fft_columns - vector_L` -/
def transPart (ofReal : α → C) (d : Nat) (u : Nat → α) (F : Nat → C) (k : Nat) : C :=
  F k - longPart ofReal d u F k

/-- group mean of `groupby(q).mean()`: average of `x` over the wave vectors whose key equals
the key of wave vector `n` -/
def groupMean {κ : Type} [DecidableEq κ] (nq : Nat) (key : Nat → κ) (x : Nat → α) (n : Nat) : α :=
  (sumRange nq fun m => if key m = key n then x m else 0)
    / ((sumRange nq fun m => if key m = key n then 1 else 0 : Nat) : α)

/-- vector.py L251-257: `spectra = 0; for n: spectra += ave_sqresults; spectra /= nsnapshots` -/
def frameMean (T : Nat) (x : Nat → α) : α := (sumRange T fun t => x t) / ((T : Nat) : α)

end Fourier

/-! ### per-wave-vector time correlation (`time_correlation`, two-index branch) -/
section Corr
variable {α C : Type} [Add α] [Mul α] [Div α] [OfNat α 0] [OfNat α 1] [NatCast α]
  [Add C] [Mul C] [OfNat C 0]

/-- `len(set(np.diff(timesteps))) == 1` -/
def isLinear (T : Nat) (ts : Nat → Int) : Bool :=
  decide (2 ≤ T) && (List.range (T - 1)).all fun t => ts (t + 1) - ts t == ts 1 - ts 0

/-- `(condition[n] * np.conj(condition[m])).sum().real` -/
def pairRe (conj : C → C) (re : C → α) (d : Nat) (c : Nat → Nat → C) (n m : Nat) : α :=
  re (sumRange d fun k => c n k * conj (c m k))

/-- the un-normalised `results` array of `time_correlation` for a condition of shape `[T, d]` -/
def corrRaw (conj : C → C) (re : C → α) (T d : Nat) (lin : Bool) (c : Nat → Nat → C) (nn : Nat) : α :=
  if lin then
    originLoop T (fun n nn => pairRe conj re d c n (n - nn)) (fun _ => 0) nn
      / originLoop T (fun _ _ => (1 : α)) (fun _ => 0) nn
  else
    re (sumRange d fun k => conj (c 0 k) * c nn k)

/-- `results /= results[0]` -/
def corrImpl (conj : C → C) (re : C → α) (T d : Nat) (lin : Bool) (c : Nat → Nat → C) (nn : Nat) : α :=
  corrRaw conj re T d lin c nn / corrRaw conj re T d lin c 0

/-- vector.py L270-277: the condition handed to `time_correlation` for wave vector `n` is
`[item[columns].values[n] for item in vectors_fft]`, i.e. `c t k = X t n k` with `X t` the table
(FFT, T_FFT or L_FFT) of frame `t`; entry `nn` of the returned `time_corr` column -/
def fftCorr (conj : C → C) (re : C → α) (T d : Nat) (lin : Bool) (X : Nat → Nat → Nat → C) (n nn : Nat) : α :=
  corrImpl conj re T d lin (fun t k => X t n k) nn

end Corr

end Pms.Vec
