-- DRIVER: cgspatial Pms.Coarse.handleSpatial
-- DRIVER: cgblur Pms.Coarse.handleBlur
-- DRIVER: cgtime Pms.Coarse.handleTime
import Pms.Model.Coarse
import Pms.Model.PbcDriver
import Pms.Model.Io
/-! Driver operations for C16.  First token after the command is the mode: `impl` (the model assembled from the
regenerated terms) or `spec` (the hand-written definitions of the property statement).  Geometry, indices, window
lengths and every discrete decision are exact ℚ; only the Gaussian weight is evaluated in `Float`. -/
namespace Pms.Coarse
open Pms Pms.Io Pms.Gen.Coarse

instance : NatCast Float := ⟨Float.ofNat⟩
instance : IntCast Float := ⟨Float.ofInt⟩

def floatPi : Float := 3.141592653589793

def absR (x : Rat) : Rat := if x < 0 then -x else x
def minR (a b : Rat) : Rat := if b < a then b else a

/-- tabulate once (the arrays are values captured by the closures, so nothing is recomputed per read) -/
def tab1 (n : Nat) (f : Nat → Rat) : Array Rat := Array.ofFn (n := n) fun i => f i.val
def tab2 (n m : Nat) (f : Nat → Nat → Rat) : Array (Array Rat) :=
  Array.ofFn (n := n) fun i => Array.ofFn (n := m) fun j => f i.val j.val
def get2 (a : Array (Array Rat)) (i j : Nat) : Rat := (a.getD i #[]).getD j 0

def joinF (l : List Float) : String := " ".intercalate (l.map showFloat)

/-- `cgspatial <mode> T N C K table[T*N*K] x[T*N*C]` → `1 out[T*N*C]`;  row `(n,i)` of the table is
`cn nb_1 … nb_{K-1}` (0-based ids, zero padded) -/
def handleSpatial (toks : List String) : Option String := do
  let (mode, rest) ← match toks with | m :: r => some (m, r) | [] => none
  let (hd, rest) ← takeMap parseNatDigits 4 rest
  let T := hd.getD 0 0; let N := hd.getD 1 0; let C := hd.getD 2 0; let K := hd.getD 3 0
  let (tb, rest) ← takeMap parseNatDigits (T*N*K) rest
  let (xs, rest) ← takeMap parseRat (T*N*C) rest
  if !rest.isEmpty then none
  let ta := tb.toArray
  let xa := xs.toArray
  let table : Nat → Nat → Nat → Int := fun n i k => if k < K then ((ta.getD ((n*N+i)*K+k) 0 : Nat) : Int) else 0
  let x : Nat → Nat → Nat → Rat := fun n j c => if j < N ∧ c < C then xa.getD ((n*N+j)*C+c) 0 else 0
  let mut outs : List Rat := []
  for n in List.range T do
    for i in List.range N do
      for c in List.range C do
        let v := if mode == "spec" then
            spatialSpec (table n i 0).toNat (fun t => (table n i (1+t)).toNat) (fun j => x n j c) i
          else spatialImpl table x n i c
        outs := v :: outs
  pure ("1 " ++ joinRat outs.reverse)

/-- `cgblur <mode> ndim n0 n1 n2 N C  bb[2·ndim] H[ndim²] ppp[ndim] sigma cut pos[N·ndim] cond[N·C]`
→ `margin[G] | positions[G·ndim] | values[G·C] (Float bits)` with G = n0·n1(·n2) -/
def handleBlur (toks : List String) : Option String := do
  let (mode, rest) ← match toks with | m :: r => some (m, r) | [] => none
  let (hd, rest) ← takeMap parseNatDigits 6 rest
  let d := hd.getD 0 0; let n0 := hd.getD 1 0; let n1 := hd.getD 2 0; let n2 := hd.getD 3 0
  let N := hd.getD 4 0; let C := hd.getD 5 0
  if d ≠ 2 ∧ d ≠ 3 then none
  let (bbs, rest) ← takeMap parseRat (2*d) rest
  let (hs, rest) ← takeMap parseRat (d*d) rest
  let (ps, rest) ← takeMap parseRat d rest
  let (sc, rest) ← takeMap parseRat 2 rest
  let (xs, rest) ← takeMap parseRat (N*d) rest
  let (cs, rest) ← takeMap parseRat (N*C) rest
  if !rest.isEmpty then none
  let bb := arrFn2 bbs 2
  let H := arrFn2 hs d
  let HinvA := tab2 d d (Pbc.inverse d H)
  let Hinv := get2 HinvA
  let ppp := arrFn ps
  let sigma := sc.getD 0 0; let cut := sc.getD 1 0
  let pos := arrFn2 xs d
  let cond := arrFn2 cs C
  let G := if d = 2 then n0 * n1 else n0 * n1 * n2
  let Pfun : Nat → Nat → Rat := if mode == "spec" then gridSpec d n0 n1 n2 bb else gridImpl d n0 n1 n2 bb
  let PA := tab2 G d Pfun
  let P := get2 PA
  let cut2 := cut * cut
  let scale := if cut2 < 1 then 1 else cut2
  let mut margins : List Rat := []
  let mut vals : List Float := []
  let mut poss : List Rat := []
  for g in List.range G do
    let d2A := tab1 N (fun p => dist2 d ratRint H Hinv ppp (P g) (pos p))
    let d2 : Nat → Rat := fun p => d2A.getD p 0
    let mut mg : Rat := 1
    for p in List.range N do
      let f := Pbc.frac d Hinv (fun k => P g k - pos p k)
      for k in List.range d do
        if ppp k ≠ 0 then mg := minR mg (Pbc.tieMargin (f k))
      mg := minR mg (absR (d2 p - cut2) / scale)
    margins := mg :: margins
    for k in List.range d do
      poss := P g k :: poss
    for c in List.range C do
      let cf : Nat → Float := fun p => ratToFloat (cond p c)
      let v : Float := if mode == "spec" then
          blurSpecSq (α := Rat) (β := Float) ratToFloat Float.exp Float.sqrt floatPi (ratToFloat sigma) cut N d2 cf
        else blurImpl (α := Rat) (β := Float) ratToFloat Float.exp Float.sqrt floatPi (ratToFloat sigma) cut N d2 cf
      vals := v :: vals
  pure (joinRat margins.reverse ++ " | " ++ joinRat poss.reverse ++ " | " ++ joinF vals.reverse)

/-- `cgtime <mode> T M period dt t0 t1 x[T·M]` → `exact margin w nres | middle[nres] | mean[nres·M]`;
`exact` = 1 when period/interval is an integer, `margin` = distance of that quotient from the nearest integer -/
def handleTime (toks : List String) : Option String := do
  let (mode, rest) ← match toks with | m :: r => some (m, r) | [] => none
  let (hd, rest) ← takeMap parseNatDigits 2 rest
  let T := hd.getD 0 0; let M := hd.getD 1 0
  let (ps, rest) ← takeMap parseRat 4 rest
  let (xs, rest) ← takeMap parseRat (T*M) rest
  if !rest.isEmpty then none
  let period := ps.getD 0 0; let dt := ps.getD 1 0; let t0 := ps.getD 2 0; let t1 := ps.getD 3 0
  let x := arrFn2 xs M
  let q : Rat := period / ((t1 - t0) * dt)
  let fl : Rat := (q.floor : Int)
  let margin := minR (q - fl) (fl + 1 - q)
  let exact := if q.den = 1 then "1" else "0"
  let w : Int := if mode == "spec" then q.floor else windowImpl ratRint ratTrunc period t0 t1 dt
  let nres : Int := if mode == "spec" then (T : Int) - w else nResults (T : Int) w
  let head := s!"{exact} {showRat margin} {w} {nres}"
  if w < 1 ∨ nres < 0 then return (head ++ " | | ")
  let mut mids : List Int := []
  let mut vals : List Rat := []
  for n in List.range nres.toNat do
    mids := (if mode == "spec" then ((middleSpec n w.toNat : Nat) : Int) else middle ratRint (n : Int) w) :: mids
    for m in List.range M do
      let v := if mode == "spec" then timeAvgSpec w.toNat (fun t => x t m) n else timeAvgImpl T w (fun t => x t m) n
      vals := v :: vals
  pure (head ++ " | " ++ " ".intercalate (mids.reverse.map toString) ++ " | " ++ joinRat vals.reverse)

end Pms.Coarse
