/-!
# C18 — effect IR, its semantics and the purity analysis (core Lean only)

The translator (`translator/gens/purity.py`) turns every public analysis entry point of pymattersim into a
list of `Stmt` over numbered variables (package-internal callees inlined).  The *meaning* of a variable is
the set of array buffers (locations) that can be read or written through it.

* `fresh x`      – x is rebound to newly allocated memory only
* `alias x ys`   – x is rebound to something that may share memory with any of `ys` (view, attribute,
                   element, container of them) and/or newly allocated memory
* `store x ys`   – a reference to `ys` is put into the python container x (`append`, `d[k] = v`): x keeps what it
                   reached and may now also reach what `ys` reach
* `mutate x`     – some buffers reachable through x are overwritten with arbitrary contents
* `write x`      – x is written to a file (no effect on memory)
* `ret xs`       – a value built from `xs` is returned (no effect on memory)

Executions are ARBITRARY finite sequences of statements drawn from the program (any order, any
repetition), which covers every path through loops and branches of the flattened routine.
-/
namespace Pms.Purity

inductive Stmt
  | fresh (x : Nat)
  | alias (x : Nat) (ys : List Nat)
  | store (x : Nat) (ys : List Nat)
  | mutate (x : Nat)
  | write (x : Nat)
  | ret (xs : List Nat)
deriving DecidableEq, Repr, Inhabited

/-- machine state: `env x l` = location l is reachable through variable x; locations `< next` exist -/
structure St where
  env  : Nat → Nat → Prop
  heap : Nat → Nat
  next : Nat

/-- rebinding of x to (a subset of) what `ys` reach plus newly allocated locations; everything that
already exists keeps its contents, all other variables keep their meaning -/
def Rebind (s : St) (x : Nat) (ys : List Nat) (s' : St) : Prop :=
  s.next ≤ s'.next ∧ (∀ v, v ≠ x → s'.env v = s.env v) ∧
  (∀ l, s'.env x l → (∃ y, y ∈ ys ∧ s.env y l) ∨ s.next ≤ l) ∧
  (∀ l, l < s.next → s'.heap l = s.heap l)

/-- one step.  Nondeterministic: which of the possible aliases is taken, how much is allocated and what
is written are all left open. -/
def Step (s : St) : Stmt → St → Prop
  | .fresh x, s' => Rebind s x [] s'
  | .alias x ys, s' => Rebind s x ys s'
  | .store x ys, s' => Rebind s x (x :: ys) s'
  | .mutate x, s' => s'.next = s.next ∧ s'.env = s.env ∧ ∀ l, s'.heap l ≠ s.heap l → s.env x l
  | .write _, s' => s' = s
  | .ret _, s' => s' = s

/-- states reachable by any finite sequence of statements of the program -/
inductive Reach (prog : List Stmt) (s0 : St) : St → Prop
  | init : Reach prog s0 s0
  | step {s s' : St} (st : Stmt) (h : Reach prog s0 s) (hm : st ∈ prog) (hs : Step s st s') : Reach prog s0 s'

/-- in-order execution of a statement list, each statement once (used for the file-vs-returned claim) -/
inductive Run : St → List Stmt → St → Prop
  | nil (s : St) : Run s [] s
  | cons {s s' s'' : St} {st : Stmt} {rest : List Stmt} (h : Step s st s') (t : Run s' rest s'') : Run s (st :: rest) s''

/-! ## the analysis: flow-insensitive "may reach an input buffer" -/

def hasAny (t ys : List Nat) : Bool := ys.any (fun y => t.contains y)

def addVar (t : List Nat) (x : Nat) : List Nat := if t.contains x then t else x :: t

/-- one propagation round -/
def round (prog : List Stmt) (t : List Nat) : List Nat :=
  prog.foldl (fun t st => match st with
    | .alias x ys => if hasAny t ys then addVar t x else t
    | .store x ys => if hasAny t ys then addVar t x else t
    | _ => t) t

def iter (prog : List Stmt) : Nat → List Nat → List Nat
  | 0, t => t
  | n+1, t => let t' := round prog t; if t'.length == t.length then t else iter prog n t'

/-- variables that may reach a buffer that existed at entry -/
def taint (prog : List Stmt) (params : List Nat) : List Nat := iter prog (prog.length + 1) params

/-- `t` is closed under the propagation rules (this, not how `t` was computed, is what soundness uses) -/
def closed (prog : List Stmt) (t : List Nat) : Bool :=
  prog.all fun st => match st with
    | .alias x ys => !(hasAny t ys) || t.contains x
    | .store x ys => !(hasAny t ys) || t.contains x
    | _ => true

/-- no in-place write through a variable that may reach an input buffer -/
def noTaintedMutate (prog : List Stmt) (t : List Nat) : Bool :=
  prog.all fun st => match st with
    | .mutate x => !t.contains x
    | _ => true

/-- container side condition (keeps the reachability reading of `store` faithful): a container that is
stored into is a local one — never a parameter, and only ever bound to a fresh container or to (a part of) itself
(so it is not a second name of some other variable's container) -/
def storesLocal (prog : List Stmt) (params : List Nat) : Bool :=
  prog.all fun st => match st with
    | .store x _ => !params.contains x && prog.all (fun st' => match st' with
        | .alias x' ys => x' != x || ys.all (· == x)
        | _ => true)
    | _ => true

def check (prog : List Stmt) (params : List Nat) : Bool :=
  let t := taint prog params
  closed prog t && params.all (fun p => t.contains p) && noTaintedMutate prog t && storesLocal prog params

/-- the offending statements (diagnostics for the harness): tainted mutates and non-local stores -/
def offenders (prog : List Stmt) (params : List Nat) : List Stmt :=
  let t := taint prog params
  prog.filter fun st => match st with
    | .mutate x => t.contains x
    | .store x _ => params.contains x || prog.any (fun st' => match st' with
        | .alias x' ys => x' == x && !(ys.all (· == x))
        | _ => false)
    | _ => false

/-! ## file-vs-returned: syntactic check on the ORDERED statement list -/

def bindsVar (x : Nat) : Stmt → Bool
  | .fresh y => y == x
  | .alias y _ => y == x
  | .store y _ => y == x
  | _ => false

def isMutate : Stmt → Bool
  | .mutate _ => true
  | _ => false

/-- after `write x`: scan forward to the first `ret`.  `none` = that `ret` does not mention x (or there is none): the
file is an auxiliary output, nothing to compare.  `some clean` = x is returned; `clean` says that between the write
and the `ret` nothing was mutated and x was not rebound. -/
def scanToRet (x : Nat) : List Stmt → Option Bool
  | [] => none
  | .ret xs :: _ => if xs.contains x then some true else none
  | st :: rest => if isMutate st || bindsVar x st then (match scanToRet x rest with | some _ => some false | none => none)
                  else scanToRet x rest

/-- every written variable that is subsequently returned reaches the `ret` untouched -/
def writesOk : List Stmt → Bool
  | [] => true
  | .write x :: rest => (scanToRet x rest != some false) && writesOk rest
  | _ :: rest => writesOk rest

/-- the written variables that are compared with the return value (diagnostics / coverage) -/
def writesReturned : List Stmt → List Nat
  | [] => []
  | .write x :: rest => (if scanToRet x rest == some true then [x] else []) ++ writesReturned rest
  | _ :: rest => writesReturned rest

/-- a routine as regenerated from the source -/
structure Routine where
  name   : String
  params : List Nat
  prog   : List Stmt
deriving Repr, Inhabited

def Routine.ok (r : Routine) : Bool := check r.prog r.params && writesOk r.prog

end Pms.Purity
