import Pms.Model.Pbc
import Pms.Model.GrTab
/-!
Model of `PyMatterSim/static/gr.py` (class `gr`), core Lean only.

API intended for reuse (C07 symmetry, C13 conditional g(r)):

* `Frame`, `Traj`            — a trajectory as index functions;
* `dist2 rint tr f i j`      — squared minimum-image (`remove_pbc`) distance of the pair (i, j) in frame f;
* `inBin δ maxbin x k`       — "distance² x falls in bin k" decided on squares; last bin right-closed (np.histogram);
* `pairHist tr bin w k`      — Σ_frames Σ_{i≠j} w f i j · [bin f i j k]: the WEIGHTED ORDERED-pair histogram
                               (partial g_ab: weight 1[t_i=a]·1[t_j=b]; conditional g(r): weight A_i·A_j);
* `loopHist tr bin w k`      — the same over unordered pairs i<j, as the code's loop visits them;
* `Spec.shell`, `Spec.g`, `Spec.gTotal`, `Spec.r`, `Spec.V`, `Spec.Lmin` — the definition in the property statement;
  `Spec.gOf`, `Spec.gTotalOf`, `Spec.pairCount` take the bin predicate `bin f i j k` as an argument (any pair distance);
* `Impl.*`                   — the algorithm of gr.py, parametrised by the REGENERATED tables (`Method`, `Defs`).
-/
namespace Pms.Gr
open Pms

structure Frame (α : Type) where
  pos : Nat → Nat → α      -- positions[i][axis]
  typ : Nat → Nat          -- particle_type[i]
  H : Nat → Nat → α        -- hmatrix
  Hinv : Nat → Nat → α     -- np.linalg.inv(hmatrix): contract, see C02

structure Traj (α : Type) where
  d : Nat                  -- ndim
  N : Nat                  -- nparticle
  T : Nat                  -- nsnapshots
  frame : Nat → Frame α
  ppp : Nat → α
  box : Nat → α            -- boxlength (frame 0; gr.__init__ asserts it is the same in every frame)
  rdelta : α
  maxbin : Nat             -- number of bins (`Impl.maxbin` / `Spec.maxbin` say what it is)
  pi : α
  typecount : Nat → Nat    -- counts returned by np.unique(particle_type of frame 0, return_counts=True)

section
variable {α : Type} [Add α] [Sub α] [Mul α] [Div α] [OfNat α 0] [IntCast α] [NatCast α]
  [LT α] [LE α] [DecidableLT α] [DecidableLE α]

def sq (x : α) : α := x * x

/-- np.prod over the d box lengths -/
def prodRange (d : Nat) (f : Nat → α) : α :=
  match d with
  | 0 => ((1 : Nat) : α)
  | n+1 => prodRange n f * f n

/-- `.min()` over the d box lengths -/
def minRange (d : Nat) (f : Nat → α) : α :=
  match d with
  | 0 => 0
  | 1 => f 0
  | n+2 => let m := minRange (n+1) f; if f (n+1) < m then f (n+1) else m

/-- squared norm of the minimum-image displacement r_j − r_i (`RIJ = positions[i+1:] − positions[i]`,
`remove_pbc`, `np.linalg.norm` squared) -/
def dist2 (rint : α → Int) (tr : Traj α) (f i j : Nat) : α :=
  let fr := tr.frame f
  let v := Pbc.removePbc tr.d rint fr.H fr.Hinv tr.ppp (fun k => fr.pos j k - fr.pos i k)
  sumRange tr.d fun k => sq (v k)

/-- np.histogram(bins = maxbin, range = (0, maxbin·δ)) membership, on squared distances:
edge_k = k·δ;  bin k = [edge_k, edge_{k+1})  except the last one, which is closed on the right -/
def inBin (δ : α) (maxbin : Nat) (x : α) (k : Nat) : Bool :=
  decide (k < maxbin) && decide (sq ((k : α) * δ) ≤ x) &&
    (decide (x < sq (((k + 1 : Nat) : α) * δ)) || (k + 1 == maxbin && decide (x ≤ sq (((k + 1 : Nat) : α) * δ))))

/-- weighted histogram over ORDERED pairs i ≠ j, summed over frames -/
def pairHist (tr : Traj α) (bin : Nat → Nat → Nat → Nat → Bool) (w : Nat → Nat → Nat → α) (k : Nat) : α :=
  sumRange tr.T fun f => sumRange tr.N fun i => sumRange tr.N fun j =>
    if i ≠ j ∧ bin f i j k = true then w f i j else 0

/-- weighted histogram over the pairs i < j visited by the code's double loop, summed over frames -/
def loopHist (tr : Traj α) (bin : Nat → Nat → Nat → Nat → Bool) (w : Nat → Nat → Nat → α) (k : Nat) : α :=
  sumRange tr.T fun f => pairLoop tr.N fun i j => if bin f i j k = true then w f i j else 0

/-- the bin predicate of a trajectory for a given squared-distance table -/
def binOf (tr : Traj α) (d2 : Nat → Nat → Nat → α) : Nat → Nat → Nat → Nat → Bool :=
  fun f i j k => inBin tr.rdelta tr.maxbin (d2 f i j) k

def ind (b : Bool) : α := if b then ((1 : Nat) : α) else 0

/-- number of particles of type `a` among the first N of a type array -/
def countType (typ : Nat → Nat) (N a : Nat) : Nat :=
  sumRange N fun i => if typ i = a then 1 else 0

namespace Spec

/-- V: product of the box lengths -/
def V (tr : Traj α) : α := prodRange tr.d tr.box
/-- L_min -/
def Lmin (tr : Traj α) : α := minRange tr.d tr.box
/-- the number of bins is int(L_min / (2·width)): this is the real number that is truncated -/
def maxbinArg (tr : Traj α) : α := Lmin tr / (((2 : Nat) : α) * tr.rdelta)
/-- r_k = (k + 1/2)·δ -/
def r (tr : Traj α) (k : Nat) : α := ((k : α) + ((1 : Nat) : α) / ((2 : Nat) : α)) * tr.rdelta
/-- ideal shell volume (3D) / area (2D) of bin k -/
def shell (tr : Traj α) (k : Nat) : α :=
  if tr.d = 3 then
    ((4 : Nat) : α) / ((3 : Nat) : α) * tr.pi *
      ((((k + 1 : Nat) : α) * ((k + 1 : Nat) : α) * ((k + 1 : Nat) : α)) - ((k : α) * (k : α) * (k : α)))
      * (tr.rdelta * tr.rdelta * tr.rdelta)
  else
    tr.pi * ((((k + 1 : Nat) : α) * ((k + 1 : Nat) : α)) - ((k : α) * (k : α))) * (tr.rdelta * tr.rdelta)

/-- number of particles of species a (frame 0) -/
def Na (tr : Traj α) (a : Nat) : Nat := countType (tr.frame 0).typ tr.N a

/-- frame-summed number of ordered pairs (i ≠ j) with t_i = a, t_j = b in bin k -/
def pairCount (tr : Traj α) (bin : Nat → Nat → Nat → Nat → Bool) (a b k : Nat) : α :=
  pairHist tr bin (fun f i j => ind (decide ((tr.frame f).typ i = a ∧ (tr.frame f).typ j = b))) k

/-- frame-summed number of ordered pairs (i ≠ j) in bin k -/
def pairCountAll (tr : Traj α) (bin : Nat → Nat → Nat → Nat → Bool) (k : Nat) : α :=
  pairHist tr bin (fun _ _ _ => ((1 : Nat) : α)) k

/-- g_ab(r_k) = V/(N_a N_b) · (frame average of the ordered a-b pair count in bin k) / shell_k -/
def gOf (tr : Traj α) (bin : Nat → Nat → Nat → Nat → Bool) (a b k : Nat) : α :=
  V tr / (((Na tr a : Nat) : α) * ((Na tr b : Nat) : α)) * (pairCount tr bin a b k / (tr.T : α)) / shell tr k

/-- total g(r_k) = V/N² · (frame average of the ordered pair count in bin k) / shell_k -/
def gTotalOf (tr : Traj α) (bin : Nat → Nat → Nat → Nat → Bool) (k : Nat) : α :=
  V tr / ((tr.N : α) * (tr.N : α)) * (pairCountAll tr bin k / (tr.T : α)) / shell tr k

/-- the definitions with the minimum-image distance of the trajectory -/
def g (rint : α → Int) (tr : Traj α) (a b k : Nat) : α := gOf tr (binOf tr (dist2 rint tr)) a b k
def gTotal (rint : α → Int) (tr : Traj α) (k : Nat) : α := gTotalOf tr (binOf tr (dist2 rint tr)) k

/-- what column `col` of the regenerated tables is supposed to hold (a = 0 marks the total) -/
def column (rint : α → Int) (tr : Traj α) (col : Col) (k : Nat) : α :=
  if col.a = 0 then gTotal rint tr k else g rint tr col.a col.b k

end Spec

namespace Impl

/-- raw accumulated histogram of one column: Σ_frames Σ_{i<j} [sel(t_j + t_i, |t_j − t_i|)]·[bin k]
(`TIJ = c_[type[i+1:], type[i]]`, `countsum = TIJ.sum(1)`, `countsub = |TIJ[:,0] − TIJ[:,1]|`) -/
def rawCountOf (tr : Traj α) (bin : Nat → Nat → Nat → Nat → Bool) (sel : Sel) (k : Nat) : α :=
  loopHist tr bin
    (fun f i j => ind (sel.eval ((tr.frame f).typ j) ((tr.frame f).typ i))) k

/-- layer 0: primitive inputs only -/
def env0 (tr : Traj α) (k : Nat) (cnt : α) : Env α :=
  { count := cnt, nsnap := (tr.T : α), npart := (tr.N : α), boxvolume := 0, rhototal := 0, nidealfac := 0,
    nideal := 0, pi := tr.pi, binleft := (k : α) * tr.rdelta, binright := ((k + 1 : Nat) : α) * tr.rdelta,
    rdelta := tr.rdelta, prodbox := prodRange tr.d tr.box, minbox := minRange tr.d tr.box, tcElem := 0,
    typecount := fun i => ((tr.typecount i : Nat) : α), rhotype := fun _ => 0, ndim := tr.d }

/-- the environment in which a normaliser is evaluated: the attributes of `__init__` are computed from the
REGENERATED definitions, in the order of the source (boxvolume, nidealfac → rhototal, rhotype → nideal) -/
def env (D : Defs) (M : Method) (tr : Traj α) (k : Nat) (cnt : α) : Env α :=
  let e0 := env0 tr k cnt
  let e1 : Env α := { e0 with
    boxvolume := D.boxvolume.eval e0,
    nidealfac := match lookupNat D.nidealfac tr.d with
                 | some e => e.eval e0
                 | none => 0 }
  let e2 : Env α := { e1 with
    rhototal := D.rhototal.eval e1,
    rhotype := fun i => D.rhotype.eval { e1 with tcElem := e1.typecount i } }
  { e2 with nideal := M.nideal.eval e2 }

def valueOf (D : Defs) (M : Method) (tr : Traj α) (bin : Nat → Nat → Nat → Nat → Bool) (col : Col) (k : Nat) : α :=
  col.norm.eval (env D M tr k (rawCountOf tr bin col.sel k))

/-- the value the code returns in column `col`, row k -/
def value (D : Defs) (M : Method) (rint : α → Int) (tr : Traj α) (col : Col) (k : Nat) : α :=
  valueOf D M tr (binOf tr (dist2 rint tr)) col k

/-- the value the code returns in column `r`, row k -/
def r (D : Defs) (M : Method) (tr : Traj α) (k : Nat) : α := M.r.eval (env D M tr k 0)

/-- the argument of `int(…)` in `self.maxbin = int(boxlength.min() / 2.0 / rdelta)` -/
def maxbinArg (D : Defs) (tr : Traj α) : α := D.maxbinArg.eval (env0 tr 0 0)

end Impl
end
end Pms.Gr
