-- DRIVER: c19hdr Pms.AuxIo.handleHdr
-- DRIVER: c19center Pms.AuxIo.handleCenter
-- DRIVER: c19vector Pms.AuxIo.handleVector
-- DRIVER: c19adds Pms.AuxIo.handleAdds
-- DRIVER: c19gsd Pms.AuxIo.handleGsd
-- DRIVER: c19logspec Pms.AuxIo.handleLogSpec
-- DRIVER: c19raw Pms.AuxIo.handleRaw
import Pms.Model.AuxIo
import Pms.Model.LammpsDriver
import Pms.Gen.Writer
/-!
Driver operations for C19 (exact ℚ).  Token / line / frame wire formats are those of `LammpsDriver` (C01).

`c19hdr nd ts N ntypes nbb b00 b01 b10 b11 b20 b21 nadd word* natoms atom*`
     → `<margin> ;; <dump header ++ atom lines> ;; <data header lines> ;; <Impl.readAll (header ++ atom lines)> ;; <[Spec.expected writtenFrame]> ;; <Spec.header writtenFrame> ;; <Spec.dataHeader>`
     margin = min(distance of every printed bound·10^6 from a rounding tie, C01's wrap margin of the whole file)
`c19center nd pr nmol (key val)* nframes framespec*` → `<margin> ;; <lines> ;; <Impl.readCenterAll> ;; <frames.map Spec.center>`
`c19vector nd pr ncols col* nframes framespec*`      → `<margin> ;; <lines> ;; <Impl.readVectorAll> ;; <frames.map Spec.vector>`
`c19adds   nd pr ncol nframes framespec*`            → `1 ;; <lines> ;; <Impl.readAdditions> ;; <Spec.additions>`
`c19gsd nd hasdcd nframes hframe* [ndcd dframe*]`    → `ok none` | `ok <k> frame*` | `err …`
     hframe = `dims step N nbox box* ntid tid* nrows ncols v*`, dframe = `nrows ncols v*`
`c19logspec npre nsecs (nrows nnoise)* <lines>`      → `<lines> ;; <Impl.readLog> ;; <sections as tables>`
`c19raw center nd nmol (key val)* <lines>` | `c19raw vector nd ncols col* <lines>` | `c19raw adds ncol <lines>` |
`c19raw log <lines>` | `c19raw lammps nd <lines>`    → `<margin> ;; <Impl result>`
-/
namespace Pms.AuxIo
open Pms Pms.Io Pms.Lammps

def pow10 (k : Nat) : Rat := ((10 ^ k : Nat) : Rat)

/-- `f"{x:.<k>f}"` read back: round-half-even at `k` decimals -/
def ratRnd (k : Nat) (x : Rat) : Rat := ((ratRint (x * pow10 k) : Int) : Rat) / pow10 k

/-- distance of `x·10^k` from the nearest rounding tie -/
def tieDist (k : Nat) (x : Rat) : Rat :=
  let y := x * pow10 k
  let r := y - (y.floor : Rat)
  if r < 1/2 then 1/2 - r else r - 1/2

def rmin (a b : Rat) : Rat := if b < a then b else a

def showMatRes : Except Err (List (List Rat)) → String
  | .ok m => "ok " ++ showMat m
  | .error .value => "err value"
  | .error .index => "err index"

def showTable (t : Impl.Table Rat) : String :=
  s!"T {t.rows.length + 1} " ++ showLines (t.header :: t.rows)

def showTables : Except Err (List (Impl.Table Rat)) → String
  | .ok ts => " ".intercalate (["ok", s!"{ts.length}"] ++ ts.map showTable)
  | .error .value => "err value"
  | .error .index => "err index"

def showOptFrames : Except Err (Option (List (Frame Rat))) → String
  | .ok none => "ok none"
  | .ok (some fs) => showResult (.ok fs)
  | .error .value => "err value"
  | .error .index => "err index"

def molOf (kv : List (Int × Int)) : Int → Option Int := fun t => (kv.find? fun p => p.1 = t).map (·.2)

def pPair : P (Int × Int) := do
  let k ← pvia parseInt
  let v ← pvia parseInt
  pure (k, v)

def pCounted {β : Type} (p : P β) : P (List β) := do
  let n ← pvia parseNatDigits
  pmany p n

/-- the margin of a whole file for the wrapped style, chunked by the orthogonal-header reader -/
def wrapMargin (nd : Nat) (ls : Lines Rat) : Rat := fileMargin nd (ls.length + 1) ls

def handleHdr (toks : List String) : Option String := do
  let ((nd, d, atoms), rest) ← (do
      let nd ← pvia parseNatDigits
      let ts ← pvia parseInt
      let n ← pvia parseInt
      let nt ← pvia parseInt
      let nbb ← pvia parseNatDigits
      let b ← pmany (pvia parseRat) 6
      let add ← pCounted ptok
      let atoms ← pCounted (pAtom nd)
      let bf := arrFn2 b 2
      pure (nd, (⟨ts, n, nt, nbb, bf, add⟩ : HeaderData Rat), atoms) : P (Nat × HeaderData Rat × List (AtomSpec Rat))).run toks
  if !rest.isEmpty then none
  if nd ≠ 2 ∧ nd ≠ 3 then none
  let dump := render Tok.num ratRnd Gen.Writer.dumpHeader d
  let data := render Tok.num ratRnd Gen.Writer.dataHeader d
  let ls := dump ++ atoms.map (Spec.atomLine Tok.num nd)
  let tie := (List.range d.nbb).foldl (fun m i => rmin m (rmin (tieDist 6 (d.bb i 0)) (tieDist 6 (d.bb i 1)))) 1
  let margin := rmin tie (wrapMargin nd ls)
  pure (showRat margin ++ " ;; " ++ showLines ls ++ " ;; " ++ showLines data ++ " ;; " ++
        showResult (Lammps.Impl.readAll nd ls) ++ " ;; " ++
        showResult (.ok [Lammps.Spec.expected nd (Spec.writtenFrame nd ratRnd d atoms)]) ++ " ;; " ++
        showLines (Lammps.Spec.header Tok.num nd (Spec.writtenFrame nd ratRnd d atoms)) ++ " ;; " ++
        showLines (Spec.dataHeader Tok.num ratRnd d))

def handleCenter (toks : List String) : Option String := do
  let ((nd, pr, kv, fs), rest) ← (do
      let nd ← pvia parseNatDigits
      let prm ← pvia parseNatDigits
      let kv ← pCounted pPair
      let fs ← pCounted (pFrame nd)
      pure (nd, (if prm = 0 then prAll else prInt), kv, fs) :
        P (Nat × (Rat → Tok Rat) × List (Int × Int) × List (FrameSpec Rat))).run toks
  if !rest.isEmpty then none
  if nd ≠ 2 ∧ nd ≠ 3 then none
  let ls := Lammps.Spec.emit pr nd fs
  pure (showRat (wrapMargin nd ls) ++ " ;; " ++ showLines ls ++ " ;; " ++
        showResult (Impl.readCenterAll nd (molOf kv) ls) ++ " ;; " ++
        showResult (.ok (fs.map (Spec.center nd (molOf kv)))))

def handleVector (toks : List String) : Option String := do
  let ((nd, pr, cols, fs), rest) ← (do
      let nd ← pvia parseNatDigits
      let prm ← pvia parseNatDigits
      let cols ← pCounted (pvia parseInt)
      let fs ← pCounted (pFrame nd)
      pure (nd, (if prm = 0 then prAll else prInt), cols, fs) :
        P (Nat × (Rat → Tok Rat) × List Int × List (FrameSpec Rat))).run toks
  if !rest.isEmpty then none
  if nd ≠ 2 ∧ nd ≠ 3 then none
  let ls := Lammps.Spec.emit pr nd fs
  pure ("1 ;; " ++ showLines ls ++ " ;; " ++
        showResult (Impl.readVectorAll nd cols ls) ++ " ;; " ++
        showResult (.ok (fs.map (Spec.vector nd cols))))

def handleAdds (toks : List String) : Option String := do
  let ((nd, pr, ncol, fs), rest) ← (do
      let nd ← pvia parseNatDigits
      let prm ← pvia parseNatDigits
      let ncol ← pvia parseInt
      let fs ← pCounted (pFrame nd)
      pure (nd, (if prm = 0 then prAll else prInt), ncol, fs) :
        P (Nat × (Rat → Tok Rat) × Int × List (FrameSpec Rat))).run toks
  if !rest.isEmpty then none
  if nd ≠ 2 ∧ nd ≠ 3 then none
  let ls := Lammps.Spec.emit pr nd fs
  let N := match fs with | [] => 0 | f :: _ => f.atoms.length
  pure ("1 ;; " ++ showLines ls ++ " ;; " ++ showMatRes (Impl.readAdditions ncol ls) ++ " ;; " ++
        showMatRes (.ok (Spec.additions nd ncol.toNat N fs)))

def pMat : P (List (List Rat)) := do
  let r ← pvia parseNatDigits
  let c ← pvia parseNatDigits
  pmany (pmany (pvia parseRat) c) r

def pHFrame : P (Impl.HFrame Rat) := do
  let dims ← pvia parseInt
  let step ← pvia parseInt
  let n ← pvia parseNatDigits
  let box ← pCounted (pvia parseRat)
  let tid ← pCounted (pvia parseInt)
  let pos ← pMat
  pure ⟨dims, box, step, n, tid, pos⟩

def handleGsd (toks : List String) : Option String := do
  let ((nd, dcd, fs, ds), rest) ← (do
      let nd ← pvia parseNatDigits
      let dcd ← pvia parseNatDigits
      let fs ← pCounted pHFrame
      let ds ← if dcd = 0 then pure [] else pCounted pMat
      pure (nd, dcd, fs, ds) : P (Nat × Nat × List (Impl.HFrame Rat) × List (List (List Rat)))).run toks
  if !rest.isEmpty then none
  pure (showOptFrames (if dcd = 0 then Impl.readGsd nd fs else Impl.readGsdDcd nd fs ds))

/-- carve `npre` leading lines and the sections out of a line list -/
def carve : List (Nat × Nat) → Lines Rat → Option (List (Spec.Section Rat))
  | [], [] => some []
  | [], _ :: _ => none
  | (nr, nn) :: more, ls =>
    match ls with
    | [] => none
    | h :: ls =>
      let rows := ls.take nr
      match ls.drop nr with
      | [] => none
      | lp :: ls2 =>
        if rows.length ≠ nr ∨ (ls2.take nn).length ≠ nn then none
        else (carve more (ls2.drop nn)).map fun ss => ⟨h, rows, lp, ls2.take nn⟩ :: ss

def pNatPair : P (Nat × Nat) := do
  let a ← pvia parseNatDigits
  let b ← pvia parseNatDigits
  pure (a, b)

def handleLogSpec (toks : List String) : Option String := do
  let ((npre, counts), rest) ← (do
      let npre ← pvia parseNatDigits
      let counts ← pCounted pNatPair
      pure (npre, counts) : P (Nat × List (Nat × Nat))).run toks
  let all ← splitLines rest
  if all.length < npre then none
  let secs ← carve counts (all.drop npre)
  let ls := Spec.emitLog (all.take npre) secs
  pure (showLines ls ++ " ;; " ++ showTables (Impl.readLog ls) ++ " ;; " ++
        showTables (.ok (secs.map fun s => ⟨s.header, s.rows⟩)))

def handleRaw (toks : List String) : Option String :=
  match toks with
  | "center" :: rest => do
      let ((nd, kv), rest) ← (do
          let nd ← pvia parseNatDigits
          let kv ← pCounted pPair
          pure (nd, kv) : P (Nat × List (Int × Int))).run rest
      if nd ≠ 2 ∧ nd ≠ 3 then none
      let ls ← splitLines rest
      pure (showRat (wrapMargin nd ls) ++ " ;; " ++ showResult (Impl.readCenterAll nd (molOf kv) ls))
  | "vector" :: rest => do
      let ((nd, cols), rest) ← (do
          let nd ← pvia parseNatDigits
          let cols ← pCounted (pvia parseInt)
          pure (nd, cols) : P (Nat × List Int)).run rest
      if nd ≠ 2 ∧ nd ≠ 3 then none
      let ls ← splitLines rest
      pure ("1 ;; " ++ showResult (Impl.readVectorAll nd cols ls))
  | "adds" :: rest => do
      let (ncol, rest) ← (pvia parseInt).run rest
      let ls ← splitLines rest
      pure ("1 ;; " ++ showMatRes (Impl.readAdditions ncol ls))
  | "log" :: rest => do
      let ls ← splitLines rest
      pure ("1 ;; " ++ showTables (Impl.readLog ls))
  | "lammps" :: rest => do
      let (nd, rest) ← (pvia parseNatDigits).run rest
      if nd ≠ 2 ∧ nd ≠ 3 then none
      let ls ← splitLines rest
      pure (showRat (wrapMargin nd ls) ++ " ;; " ++ showResult (Lammps.Impl.readAll nd ls))
  | _ => none

end Pms.AuxIo
