import Pms.Model.Prelude
/-!
Model of `PyMatterSim/static/sq.py` (class `sq`), core Lean only.

API reused by the conditional S(q) (C13) and the dynamics (C06) models:
* `Cx α`                    complex number as a pair (core only), `Cx.mul`, `Cx.conj`, `reMulConj a b = Re(a·conj b)`
* `phase c s`               `exp(-iθ)` given `c = cos θ`, `s = sin θ`
* `mode n A c s`            weighted density mode  Σ_{i<n} A_i · exp(-iθ_i)   (θ_i = q·r_i enters as `c i`, `s i`)
* `ind ty a`                indicator weight of species `a`
* `groupMean`               pandas `groupby(key).mean()`: sorted distinct keys, mean over the rows with that key

`Impl` (`Method.*`) interprets the data REGENERATED from the source (`Pms.Gen.Sq`): accumulator keys, if/elif routing,
product statements, divisor statements.  `Spec.*` is the definition as the property states it.
Phases enter as real arrays (cos/sin of q·r): the driver evaluates them in `Float`, the theorems treat them as arbitrary.
-/
namespace Pms.Sq
open Pms

/-- complex number as a pair -/
structure Cx (α : Type) where
  re : α
  im : α
deriving Inhabited

section
variable {α : Type} [Add α] [Sub α] [Mul α] [Neg α] [OfNat α 0]

instance : Add (Cx α) := ⟨fun a b => ⟨a.re + b.re, a.im + b.im⟩⟩
instance : OfNat (Cx α) 0 := ⟨⟨0, 0⟩⟩

def Cx.mul (a b : Cx α) : Cx α := ⟨a.re * b.re - a.im * b.im, a.re * b.im + a.im * b.re⟩
def Cx.conj (a : Cx α) : Cx α := ⟨a.re, -a.im⟩
def Cx.smul (w : α) (a : Cx α) : Cx α := ⟨w * a.re, w * a.im⟩

/-- `(a * np.conj(b)).real` -/
def reMulConj (a b : Cx α) : α := (Cx.mul a (Cx.conj b)).re

/-- `np.exp(-1j * θ)` with `c = cos θ`, `s = sin θ` -/
def phase (c s : α) : Cx α := ⟨c, -s⟩

/-- weighted density mode Σ_{i<n} A_i exp(-iθ_i) -/
def mode (n : Nat) (A : Nat → α) (c s : Nat → α) : Cx α :=
  ⟨sumRange n fun i => A i * c i, sumRange n fun i => A i * (-(s i))⟩

end

/-- indicator weight of species `a` -/
def ind {α : Type} [OfNat α 0] [OfNat α 1] (ty : Nat → Nat) (a : Nat) : Nat → α := fun i => if ty i = a then 1 else 0

/-- number of particles of type `a` among the first `n` -/
def countType (n : Nat) (ty : Nat → Nat) (a : Nat) : Nat := sumRange n fun i => if ty i = a then 1 else 0

/-- `np.unique(particle_type, return_counts=True)[1][j]` given the sorted distinct type ids `uniq` -/
def typecount (uniq : List Nat) (n : Nat) (ty : Nat → Nat) (j : Nat) : Nat := countType n ty (uniq.getD j 0)

/-- insertion into a strictly increasing list (no duplicates) -/
def insertKey {κ : Type} [LT κ] [DecidableLT κ] [DecidableEq κ] (x : κ) : List κ → List κ
  | [] => [x]
  | y :: ys => if x < y then x :: y :: ys else if x = y then y :: ys else y :: insertKey x ys

/-- sorted distinct values of `key 0 … key (n-1)` -/
def distinctKeys {κ : Type} [LT κ] [DecidableLT κ] [DecidableEq κ] (n : Nat) (key : Nat → κ) : List κ :=
  foldRange n (fun l k => insertKey (key k) l) []

/-- the concrete `np.unique` used by the driver -/
def uniqTypes (n : Nat) (ty : Nat → Nat) : List Nat := distinctKeys n ty

/-- number of rows with key `x` -/
def groupSize {κ : Type} [DecidableEq κ] (n : Nat) (key : Nat → κ) (x : κ) : Nat :=
  sumRange n fun k => if key k = x then 1 else 0

/-- `df.groupby(key).mean()` of one column: (key, mean of the rows with that key), keys increasing -/
def groupMean {α κ : Type} [Add α] [Div α] [OfNat α 0] [NatCast α] [LT κ] [DecidableLT κ] [DecidableEq κ]
    (n : Nat) (key : Nat → κ) (v : Nat → α) : List (κ × α) :=
  (distinctKeys n key).map fun x =>
    (x, (sumRange n fun k => if key k = x then v k else 0) / ((groupSize n key x : Nat) : α))

/-! ### data regenerated from the source -/

/-- right-hand side of `sqresults[col] /= (self.nsnapshots * …)` -/
inductive Dv where
  | total                 -- self.nparticle
  | diag (i : Nat)        -- self.typecount[i]
  | cross (i j : Nat)     -- sqrt(self.typecount[i] * self.typecount[j])
deriving DecidableEq, Repr, Inhabited

/-- one of `sq.unary … sq.quinary`, as extracted by the translator -/
structure Method where
  name : String
  columns : List String
  buckets : List String
  totalBucket : String
  chain : List (Nat × String)
  elseBucket : Option String
  products : List (String × String × String)
  divisors : List (String × Dv)
  roundDigits : Nat
  shape : List String
deriving DecidableEq, Repr, Inhabited

/-- the if/elif/else chain on `snapshot.particle_type[i]` -/
def Method.bucketOf (m : Method) (t : Nat) : Option String :=
  match m.chain.find? (fun p => p.1 == t) with
  | some p => some p.2
  | none => m.elseBucket

/-- column name of the partial S_ab -/
def digit : Nat → String
  | 0 => "0" | 1 => "1" | 2 => "2" | 3 => "3" | 4 => "4" | 5 => "5" | 6 => "6" | 7 => "7" | 8 => "8" | _ => "9"
def colName (a b : Nat) : String := "Sq" ++ digit a ++ digit b

section
variable {α : Type} [Add α] [Sub α] [Mul α] [Neg α] [Div α] [OfNat α 0] [NatCast α]

/-- `exp_thetas[b] += v` -/
def addAt (acc : String → Cx α) (b : String) (v : Cx α) : String → Cx α :=
  fun x => if x = b then acc x + v else acc x

/-- body of `for i in range(snapshot.nparticle)` -/
def Method.step (m : Method) (ty : Nat → Nat) (med : Nat → Cx α) (acc : String → Cx α) (i : Nat) : String → Cx α :=
  let acc1 := addAt acc m.totalBucket (med i)
  match m.bucketOf (ty i) with
  | some b => addAt acc1 b (med i)
  | none => acc1

/-- the accumulators after the particle loop of one frame -/
def Method.particleLoop (m : Method) (N : Nat) (ty : Nat → Nat) (med : Nat → Cx α) : String → Cx α :=
  foldRange N (m.step ty med) (fun _ => 0)

def listSum : List α → α
  | [] => 0
  | x :: xs => x + listSum xs

/-- `sqresults[col]` after the frame loop, before the divisions.
`ty f i`: type of particle i in frame f;  `c f i k`, `s f i k`: cos/sin of q_k·r_i in frame f -/
def Method.raw (m : Method) (T N : Nat) (ty : Nat → Nat → Nat) (c s : Nat → Nat → Nat → α) (col : String) (k : Nat) : α :=
  sumRange T fun f =>
    let acc := m.particleLoop N (ty f) (fun i => phase (c f i k) (s f i k))
    listSum ((m.products.filter (fun p => p.1 == col)).map fun p => reMulConj (acc p.2.1) (acc p.2.2))

/-- value of `self.nsnapshots * …` -/
def dvVal (sqrt : α → α) (T N : Nat) (tc : Nat → Nat) : Dv → α
  | .total => (T : α) * (N : α)
  | .diag i => (T : α) * (tc i : α)
  | .cross i j => (T : α) * sqrt ((tc i * tc j : Nat) : α)

/-- `sqresults[col]` per wave vector after the divisions (before round / group) -/
def Method.value (m : Method) (sqrt : α → α) (T N : Nat) (tc : Nat → Nat) (ty : Nat → Nat → Nat)
    (c s : Nat → Nat → Nat → α) (col : String) (k : Nat) : α :=
  (m.divisors.filter (fun d => d.1 == col)).foldl (fun v d => v / dvVal sqrt T N tc d.2) (m.raw T N ty c s col k)

/-- the returned frame: per value column the group means of the rounded per-vector values -/
def tableOf {κ : Type} [LT κ] [DecidableLT κ] [DecidableEq κ] (rnd : α → α) (nq : Nat) (key : Nat → κ)
    (cols : List String) (value : String → Nat → α) : List (String × List (κ × α)) :=
  cols.map fun col => (col, groupMean nq key fun k => rnd (value col k))

def Method.table {κ : Type} [LT κ] [DecidableLT κ] [DecidableEq κ] (m : Method) (sqrt rnd : α → α) (T N : Nat)
    (tc : Nat → Nat) (ty : Nat → Nat → Nat) (nq : Nat) (key : Nat → κ) (c s : Nat → Nat → Nat → α) :
    List (String × List (κ × α)) :=
  tableOf rnd nq key (m.columns.drop 1) (m.value sqrt T N tc ty c s)

/-! ### Spec: the density-mode definition -/
namespace Spec
variable [OfNat α 1]

/-- ρ_a(q_k) in frame f (a-particles only) -/
def rho (N : Nat) (ty : Nat → Nat) (c s : Nat → Nat → α) (a k : Nat) : Cx α :=
  mode N (ind ty a) (fun i => c i k) (fun i => s i k)

/-- ρ(q_k): all particles -/
def rhoAll (N : Nat) (c s : Nat → Nat → α) (k : Nat) : Cx α :=
  mode N (fun _ => 1) (fun i => c i k) (fun i => s i k)

/-- S_ab(q_k) = frame average of Re[ρ_a(q) ρ_b(−q)] / √(N_a N_b) -/
def S (sqrt : α → α) (T N : Nat) (ty : Nat → Nat → Nat) (c s : Nat → Nat → Nat → α) (a b k : Nat) : α :=
  (sumRange T fun f => reMulConj (rho N (ty f) (c f) (s f) a k) (rho N (ty f) (c f) (s f) b k)
      / sqrt ((countType N (ty 0) a * countType N (ty 0) b : Nat) : α)) / (T : α)

/-- total S(q_k) = frame average of |ρ(q)|² / N -/
def Stot (T N : Nat) (c s : Nat → Nat → Nat → α) (k : Nat) : α :=
  (sumRange T fun f => reMulConj (rhoAll N (c f) (s f) k) (rhoAll N (c f) (s f) k) / (N : α)) / (T : α)

/-- the columns the property names for K species: Sq, Sq11 … SqKK, Sq12 … Sq(K-1)K; only Sq for K > 5 -/
def pairs (K : Nat) : List (Nat × Nat) :=
  if K = 1 ∨ K > 5 then [] else
  (List.range' 1 K).map (fun a => (a, a)) ++
  (List.range' 1 K).flatMap fun a => ((List.range' 1 K).filter fun b => a < b).map fun b => (a, b)

def columns (K : Nat) : List String := "Sq" :: (pairs K).map fun p => colName p.1 p.2

/-- value of a named column -/
def value (sqrt : α → α) (K T N : Nat) (ty : Nat → Nat → Nat) (c s : Nat → Nat → Nat → α) (col : String) (k : Nat) : α :=
  if col = "Sq" then Stot T N c s k else
  match (pairs K).find? (fun p => colName p.1 p.2 == col) with
  | some p => S sqrt T N ty c s p.1 p.2 k
  | none => 0

def table {κ : Type} [LT κ] [DecidableLT κ] [DecidableEq κ] (sqrt rnd : α → α) (K T N : Nat)
    (ty : Nat → Nat → Nat) (nq : Nat) (key : Nat → κ) (c s : Nat → Nat → Nat → α) : List (String × List (κ × α)) :=
  tableOf rnd nq key (columns K) (value sqrt K T N ty c s)

end Spec
end

/-! ### decidable well-formedness of a regenerated method (what `C04_routing`, `C04_products_norm` decide) -/

/-- types 1..K are routed to pairwise different accumulators, none of them the total accumulator -/
def Method.okRouting (m : Method) (K : Nat) : Bool :=
  (List.range' 1 K).all fun t =>
    (m.bucketOf t).isSome && (m.bucketOf t != some m.totalBucket) &&
    (List.range' 1 K).all fun u => t == u || m.bucketOf t != m.bucketOf u

/-- column Sq_ab: exactly one product statement, of the accumulators of a and b, and exactly one divisor statement,
`typecount[a-1]` on the diagonal and `sqrt(typecount[a-1]*typecount[b-1])` off it -/
def Method.okPair (m : Method) (a b : Nat) : Bool :=
  match m.bucketOf a, m.bucketOf b with
  | some ba, some bb =>
    (m.products.filter (fun p => p.1 == colName a b) == [(colName a b, ba, bb)]) &&
    (m.divisors.filter (fun d => d.1 == colName a b) == [(colName a b, if a = b then Dv.diag (a - 1) else Dv.cross (a - 1) (b - 1))])
  | _, _ => false

/-- column Sq: |total accumulator|² / (nsnapshots · nparticle) -/
def Method.okTotal (m : Method) : Bool :=
  (m.products.filter (fun p => p.1 == "Sq") == [("Sq", m.totalBucket, m.totalBucket)]) &&
  (m.divisors.filter (fun d => d.1 == "Sq") == [("Sq", Dv.total)])

/-- no routed accumulator is the unconditional one -/
def Method.okNoAlias (m : Method) : Bool :=
  (m.elseBucket != some m.totalBucket) && m.chain.all fun p => p.2 != m.totalBucket

/-- everything the refinement theorem needs of the method used for K species -/
def Method.ok (m : Method) (K : Nat) : Bool :=
  (K == 1 || K > 5 || m.okRouting K) && m.okNoAlias && m.okTotal && (m.columns == "q" :: Spec.columns K) &&
  (Spec.pairs K).all fun p => m.okPair p.1 p.2

/-! ### dispatch (`getresults`) -/

def cmpHolds (op : String) (x n : Nat) : Bool :=
  if op = "==" then x == n else if op = ">" then decide (x > n) else if op = ">=" then decide (x ≥ n)
  else if op = "<" then decide (x < n) else if op = "<=" then decide (x ≤ n) else false

/-- name of the method `getresults` calls for `len(typenumber) = K` (`none`: falls through, returns None) -/
def dispatchOf (rows : List (String × Nat × String)) (K : Nat) : Option String :=
  (rows.find? fun r => cmpHolds r.1 K r.2.1).map (·.2.2)

def methodFor (methods : List Method) (rows : List (String × Nat × String)) (K : Nat) : Option Method :=
  match dispatchOf rows K with
  | some nm => methods.find? (fun m => m.name == nm)
  | none => none

/-- the Spec's own column lookup is unambiguous: every pair column is found under its own name, none is called "Sq" -/
def specLookupOK (K : Nat) : Bool :=
  (Spec.pairs K).all fun p =>
    (colName p.1 p.2 != "Sq") && ((Spec.pairs K).find? (fun q => colName q.1 q.2 == colName p.1 p.2) == some p)

/-- `p` holds of the method dispatched for K species (false when nothing is dispatched) -/
def checkFor (methods : List Method) (rows : List (String × Nat × String)) (K : Nat) (p : Method → Bool) : Bool :=
  match methodFor methods rows K with
  | some m => p m
  | none => false

end Pms.Sq
