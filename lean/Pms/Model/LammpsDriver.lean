-- DRIVER: lmpspec Pms.Lammps.handleSpec
-- DRIVER: lmpread Pms.Lammps.handleRead
import Pms.Model.Lammps
import Pms.Model.Io
/-!
Driver operations for C01 (exact ℚ).

Wire format of a token: `i<int>` | `n<rat>` | `w<word>`; every line is terminated by the token `|`.

`lmpread nd <lines>`                       → `<margin> ;; <result of Impl.readAll>`
`lmpspec nd pr nframes <framespec>*`       → `<margin> ;; <Spec.emit tokens> ;; <Impl.readAll (Spec.emit fs)> ;; <fs.map Spec.expected>`
  framespec = `ts tric style lo0 lo1 lo2 hi0 hi1 hi2 xy xz yz nflags flag* nextra name* natoms atom*`
  atom      = `id type c_0 … c_{nd-1} nx tok*nx`
  pr        = 0: every number is rendered as a float token; 1: integer-valued numbers as integer tokens
result    = `ok nframes frame*` | `err value` | `err index`
frame     = `F ts N <ptype> <positions> <boxlength> <boxbounds> R0|R1 <realbounds> <hmatrix>`, list = `len v*`, matrix = `rows list*`

margin = smallest `lo − x` over the coordinates the wrapped style moves up (`x < lo`): the only float decision that is
not taken on two directly parsed tokens is the second `np.where` on `x + boxlength` against `hi`.
-/
namespace Pms.Lammps
open Pms Pms.Io

abbrev P := StateT (List String) Option

def ptok : P String := fun s => match s with
  | [] => none
  | t :: ts => some (t, ts)

def pvia {β : Type} (f : String → Option β) : P β := do
  let t ← ptok
  match f t with
  | some v => pure v
  | none => failure

def pmany {β : Type} (p : P β) : Nat → P (List β)
  | 0 => pure []
  | n+1 => do
      let v ← p
      let vs ← pmany p n
      pure (v :: vs)

def parseTok (t : String) : Option (Tok Rat) :=
  let body := (t.drop 1).toString
  if t.startsWith "i" then (parseInt body).map Tok.int
  else if t.startsWith "n" then (parseRat body).map Tok.num
  else if t.startsWith "w" then some (Tok.word body)
  else none

def showTok : Tok Rat → String
  | .int n => s!"i{n}"
  | .num x => "n" ++ showRat x
  | .word s => "w" ++ s

/-- split the wire tokens into lines: every line is terminated by `|` -/
def splitLines (ts : List String) : Option (Lines Rat) :=
  let rec go : List String → Line Rat → Lines Rat → Option (Lines Rat)
    | [], cur, acc => some (acc.reverse ++ (if cur.isEmpty then [] else [cur.reverse]))
    | t :: rest, cur, acc =>
      if t = "|" then go rest [] (cur.reverse :: acc)
      else match parseTok t with
        | some k => go rest (k :: cur) acc
        | none => none
  go ts [] []

def showLines (ls : Lines Rat) : String :=
  " ".intercalate (ls.map fun l => " ".intercalate (l.map showTok ++ ["|"]))

def showList (l : List Rat) : String := " ".intercalate (s!"{l.length}" :: l.map showRat)
def showMat (m : List (List Rat)) : String := " ".intercalate (s!"{m.length}" :: m.map showList)
def showIntList (l : List Int) : String := " ".intercalate (s!"{l.length}" :: l.map fun n => s!"{n}")

def showFrame (f : Frame Rat) : String :=
  " ".intercalate [ "F", s!"{f.timestep}", s!"{f.nparticle}", showIntList f.ptype, showMat f.positions,
    showList f.boxlength, showMat f.boxbounds,
    (match f.realbounds with | none => "R0 0" | some rb => "R1 " ++ showMat rb), showMat f.hmatrix ]

def showResult : Except Err (List (Frame Rat)) → String
  | .ok fs => " ".intercalate (["ok", s!"{fs.length}"] ++ fs.map showFrame)
  | .error .value => "err value"
  | .error .index => "err index"

/-- margin of one frame given its own lines -/
def frameMargin (nd : Nat) (chunk : Lines Rat) : Rat :=
  let hdr := chunk.getD 4 []
  let names := (chunk.getD 8 []).drop 2
  if Impl.hasWord "xy" hdr || !(Impl.hasWord "x" names) then 1 else
  let num (t : Tok Rat) : Rat := match Impl.toFloat t with | .ok v => v | .error _ => 0
  let lo (i : Nat) : Rat := match (chunk.getD (5 + i) [])[0]? with | some t => num t | none => 0
  (chunk.drop 9).foldl (fun m l =>
    (List.range nd).foldl (fun m i =>
      match l[2 + i]? with
      | some t => let x := num t; if x < lo i ∧ lo i - x < m then lo i - x else m
      | none => m) m) 1

/-- margin of a whole file: chunk it with the model's own frame reader -/
def fileMargin (nd : Nat) : Nat → Lines Rat → Rat
  | 0, _ => 1
  | fuel+1, ls =>
    match Impl.readFrame nd ls with
    | .ok (some (_, rest)) =>
      let m := frameMargin nd (ls.take (ls.length - rest.length))
      let m' := fileMargin nd fuel rest
      if m < m' then m else m'
    | _ => 1

def handleRead (toks : List String) : Option String := do
  let (nd, rest) ← (pvia parseNatDigits).run toks
  if nd ≠ 2 ∧ nd ≠ 3 then none
  let ls ← splitLines rest
  pure (showRat (fileMargin nd (ls.length + 1) ls) ++ " ;; " ++ showResult (Impl.readAll nd ls))

def pStyle : P Style := do
  let k ← pvia parseNatDigits
  match k with
  | 0 => pure .x
  | 1 => pure .xs
  | 2 => pure .xu
  | _ => failure

def pAtom (nd : Nat) : P (AtomSpec Rat) := do
  let id ← pvia parseInt
  let ty ← pvia parseInt
  let cs ← pmany (pvia parseRat) nd
  let nx ← pvia parseNatDigits
  let ex ← pmany (pvia parseTok) nx
  pure ⟨id, ty, arrFn cs, ex⟩

def pFrame (nd : Nat) : P (FrameSpec Rat) := do
  let ts ← pvia parseInt
  let tric ← pvia parseNatDigits
  let style ← pStyle
  let lo ← pmany (pvia parseRat) 3
  let hi ← pmany (pvia parseRat) 3
  let xy ← pvia parseRat
  let xz ← pvia parseRat
  let yz ← pvia parseRat
  let nf ← pvia parseNatDigits
  let flags ← pmany ptok nf
  let ne ← pvia parseNatDigits
  let names ← pmany ptok ne
  let na ← pvia parseNatDigits
  let atoms ← pmany (pAtom nd) na
  pure ⟨ts, tric ≠ 0, style, arrFn lo, arrFn hi, xy, xz, yz, flags, names, atoms⟩

def prAll (x : Rat) : Tok Rat := .num x
def prInt (x : Rat) : Tok Rat := if x.den = 1 then .int x.num else .num x

def handleSpec (toks : List String) : Option String := do
  let ((nd, prm, fs), rest) ← (do
      let nd ← pvia parseNatDigits
      let prm ← pvia parseNatDigits
      let nf ← pvia parseNatDigits
      let fs ← pmany (pFrame nd) nf
      pure (nd, prm, fs) : P (Nat × Nat × List (FrameSpec Rat))).run toks
  if !rest.isEmpty then none
  if nd ≠ 2 ∧ nd ≠ 3 then none
  let pr := if prm = 0 then prAll else prInt
  let ls := Spec.emit pr nd fs
  pure (showRat (fileMargin nd (ls.length + 1) ls) ++ " ;; " ++ showLines ls ++ " ;; " ++
        showResult (Impl.readAll nd ls) ++ " ;; " ++ showResult (.ok (fs.map (Spec.expected nd))))

end Pms.Lammps
