import Pms.Model.Prelude
/-!
Model of `PyMatterSim/reader/lammps_reader_helper.py::{read_lammps, read_lammps_wrapper}` (C01; `Impl.readFrame`
is reused by C19).

A dump file is a list of lines, a line is the list of its whitespace-separated tokens (`str.split()`), a token is
classified by what Python accepts it as:
  * `Tok.int n`   – accepted by `int()` (and by `float()`, as the number `n`),
  * `Tok.num x`   – accepted by `float()` only,
  * `Tok.word s`  – anything else (only ever compared with `==`, e.g. `'xy' in item`).
`str.split`, `int()`, `float()` and the decimal → double rounding are trusted primitives.  The open file handle is the
list of remaining lines; EOF is the exhausted list (`readline` then returns the empty line).  Python exceptions are
`Except Err` (`ValueError` / `IndexError`), so a malformed file fails the whole read as in Python.

API (for C19):  `Impl.readFrame nd lines : Except Err (Option (Frame α × Lines α))` – one `read_lammps(f, ndim)` call
(`none` = the Python `None` that stops the wrapper); `Impl.readAll nd lines : Except Err (List (Frame α))` – the wrapper.

`Spec` is the LAMMPS convention, written as an *emitter* of dump files from a frame description (`FrameSpec`) and the
snapshot that must come back (`Spec.expected`).  Everything is operation-polymorphic: `α = Rat` in the driver, an
ordered field in the theorems.
-/
namespace Pms.Lammps
open Pms

inductive Tok (α : Type) where
  | int (n : Int)
  | num (x : α)
  | word (s : String)

abbrev Line (α : Type) := List (Tok α)
abbrev Lines (α : Type) := List (Line α)

/-- the Python exception classes the reader can raise on a malformed file -/
inductive Err where
  | value
  | index
  deriving DecidableEq, Repr

/-- `SingleSnapshot`: arrays are lists with their numpy shape -/
structure Frame (α : Type) where
  timestep : Int
  nparticle : Nat
  ptype : List Int                      -- shape (N,)
  positions : List (List α)             -- shape (N, ndim)
  boxlength : List α                    -- shape (ndim,)
  boxbounds : List (List α)             -- shape (ndim, 2)
  realbounds : Option (List (List α))   -- None | shape (ndim, 2)
  hmatrix : List (List α)               -- shape (ndim, ndim)

variable {α : Type} [Add α] [Sub α] [Mul α] [OfNat α 0] [IntCast α] [LT α] [DecidableLT α]

/-- Python `min(a, b)`: the first of equal elements is kept -/
def pmin (a b : α) : α := if b < a then b else a
/-- Python `max(a, b)` -/
def pmax (a b : α) : α := if a < b then b else a
/-- `min((a, b, c, d))` -/
def min4 (a b c d : α) : α := pmin (pmin (pmin a b) c) d
def max4 (a b c d : α) : α := pmax (pmax (pmax a b) c) d

/-- the two `np.where` passes of the wrapped style, on one coordinate -/
def wrapLo (lo len x : α) : α := if x < lo then x + len else x
def wrapHi (hi len x : α) : α := if hi < x then x - len else x

/-! ## Impl — `read_lammps` step for step -/
namespace Impl

def isWord (s : String) : Tok α → Bool
  | .word w => w == s
  | _ => false

/-- `s in item` -/
def hasWord (s : String) (l : Line α) : Bool := l.any (isWord s)

/-- `f.readline().split()`; at EOF the empty line, forever -/
def readline : Lines α → Line α × Lines α
  | [] => ([], [])
  | l :: ls => (l, ls)

/-- `int(tok)` -/
def toInt : Tok α → Except Err Int
  | .int n => .ok n
  | _ => .error .value

/-- `float(tok)` -/
def toFloat : Tok α → Except Err α
  | .int n => .ok (n : α)
  | .num x => .ok x
  | .word _ => .error .value

/-- `int(f.readline())`: the whole line must be one integer token -/
def pyInt : Line α → Except Err Int
  | [.int n] => .ok n
  | _ => .error .value

/-- `item[i]` -/
def item (l : Line α) (i : Nat) : Except Err (Tok α) :=
  match l[i]? with
  | some t => .ok t
  | none => .error .index

/-- numpy `row[:] = vals` for a row of width `k`: one value is broadcast, otherwise the lengths must agree -/
def fitRow {β : Type} (k : Nat) (vs : List β) : Except Err (List β) :=
  match vs with
  | [v] => .ok (List.replicate k v)
  | _ => if vs.length = k then .ok vs else .error .value

/-- exactly `k` values (`np.vstack` of a row: no broadcasting) -/
def exactRow {β : Type} (k : Nat) (vs : List β) : Except Err (List β) :=
  if vs.length = k then .ok vs else .error .value

/-- `for i in range(n): item = f.readline().split(); boxbounds[i, :] = item[:k]`
(`bcast = false`: the `np.vstack((boxbounds, np.array(item[:k], float)))` rows of a 2-D triclinic header) -/
def readBoxRows (bcast : Bool) (k : Nat) : Nat → Lines α → Except Err (List (List α) × Lines α)
  | 0, ls => .ok ([], ls)
  | n+1, ls => do
      let vs ← ((readline ls).1.take k).mapM toFloat
      let row ← if bcast then fitRow k vs else exactRow k vs
      let r ← readBoxRows bcast k n (readline ls).2
      .ok (row :: r.1, r.2)

/-- numpy index `arr[i]` on an axis of length `n`: negative indices count from the end -/
def pyIndex (n : Nat) (i : Int) : Except Err Nat :=
  if 0 ≤ i ∧ i < n then .ok i.toNat
  else if -(n : Int) ≤ i ∧ i < 0 then .ok (i + n).toNat
  else .error .index

/-- `particle_type`, `positions` while the atom loop runs -/
structure Arrays (α : Type) where
  ptype : List Int
  pos : List (List α)

/-- `np.zeros(N, dtype=int)`, `np.zeros((N, ndim))` -/
def zeros (nd N : Nat) : Arrays α := ⟨List.replicate N 0, List.replicate N (List.replicate nd 0)⟩

/-- one pass of the atom loop:
    `atom_index = int(item[0]) - 1; particle_type[atom_index] = int(item[1]); positions[atom_index] = <coords item>` -/
def placeLine (nd N : Nat) (coords : Line α → Except Err (List α)) (it : Line α) (st : Arrays α) :
    Except Err (Arrays α) := do
  let t0 ← item it 0
  let id ← toInt t0
  let t1 ← item it 1
  let ty ← toInt t1
  let idx ← pyIndex N (id - 1)
  let vs ← coords it
  let row ← fitRow nd vs
  .ok ⟨st.ptype.set idx ty, st.pos.set idx row⟩

/-- `for i in range(n): item = f.readline().split(); …` -/
def readAtoms (nd N : Nat) (coords : Line α → Except Err (List α)) :
    Nat → Lines α → Arrays α → Except Err (Arrays α × Lines α)
  | 0, ls, st => .ok (st, ls)
  | n+1, ls, st => do
      let st' ← placeLine nd N coords (readline ls).1 st
      readAtoms nd N coords n (readline ls).2 st'

/-- `[float(j) for j in item[2: ndim + 2]]` -/
def sliceFloats (nd : Nat) (it : Line α) : Except Err (List α) := ((it.drop 2).take nd).mapM toFloat

/-- elementwise `s * boxlength + boxbounds[:, 0]` (numpy broadcasting of a python list against an `(ndim,)` array) -/
def scale3 : List α → List α → List α → List α
  | s :: ss, l :: ls, o :: os => (s * l + o) :: scale3 ss ls os
  | _, _, _ => []

/-- orthogonal `xs`: `[float(j) for j in item[2: ndim + 2]] * boxlength + boxbounds[:, 0]` -/
def scaledOrth (nd : Nat) (len lo : List α) (it : Line α) : Except Err (List α) := do
  let vs ← sliceFloats nd it
  let vs ← fitRow nd vs
  .ok (scale3 vs len lo)

/-- `float(item[i])` -/
def floatAt (it : Line α) (i : Nat) : Except Err α := do
  let t ← item it i
  toFloat t

/-- the cell quantities the triclinic branch computes from the three header rows -/
structure TricCell (α : Type) where
  xlo : α
  xhi : α
  ylo : α
  yhi : α
  zlo : α
  zhi : α
  h0 : α
  h1 : α
  h2 : α
  h3 : α
  h4 : α
  h5 : α

/-- triclinic `xs`, `ndim == 3` and `ndim == 2` -/
def scaledTric (nd : Nat) (c : TricCell α) (it : Line α) : Except Err (List α) :=
  if nd = 3 then do
    let s0 ← floatAt it 2
    let s1 ← floatAt it 3
    let s2 ← floatAt it 4
    .ok [c.xlo + s0 * c.h0 + s1 * c.h5 + s2 * c.h4, c.ylo + s1 * c.h1 + s2 * c.h3, c.zlo + s2 * c.h2]
  else do
    let s0 ← floatAt it 2
    let s1 ← floatAt it 3
    .ok [c.xlo + s0 * c.h0 + s1 * c.h5, c.ylo + s1 * c.h1]

def wrapRow : List α → List α → List α → List α → List α
  | x :: xs, lo :: los, hi :: his, l :: ls => wrapHi hi l (wrapLo lo l x) :: wrapRow xs los his ls
  | _, _, _, _ => []

def col (j : Nat) (m : List (List α)) : List α := m.map fun r => r.getD j 0

def subList : List α → List α → List α
  | a :: as, b :: bs => (a - b) :: subList as bs
  | _, _ => []

/-- `np.diag(v)` -/
def diag (nd : Nat) (v : List α) : List (List α) :=
  (List.range nd).map fun i => (List.range nd).map fun j => if i = j then v.getD i 0 else 0

/-- the orthogonal branch, entered after the `ITEM: BOX BOUNDS` line -/
def readOrth (nd : Nat) (ts : Int) (N : Nat) (ls : Lines α) : Except Err (Option (Frame α × Lines α)) := do
  let bb ← readBoxRows true 2 nd ls
  let boxbounds := bb.1
  let lo := col 0 boxbounds
  let hi := col 1 boxbounds
  let boxlength := subList hi lo
  let ls := bb.2.drop (3 - nd)
  let names := (readline ls).1.drop 2
  let ls := (readline ls).2
  let r ←
    if hasWord "xu" names || hasWord "x" names then do
      let r ← readAtoms nd N (sliceFloats nd) N ls (zeros nd N)
      if hasWord "x" names then
        .ok (⟨r.1.ptype, r.1.pos.map fun row => wrapRow row lo hi boxlength⟩, r.2)
      else .ok r
    else if hasWord "xs" names then
      readAtoms nd N (scaledOrth nd boxlength lo) N ls (zeros nd N)
    else .ok (zeros nd N, ls)
  .ok (some (⟨ts, N, r.1.ptype, r.1.pos, boxlength, boxbounds, none, diag nd boxlength⟩, r.2))

/-- the triclinic branch -/
def readTric (nd : Nat) (ts : Int) (N : Nat) (ls : Lines α) : Except Err (Option (Frame α × Lines α)) := do
  let b0 ← readBoxRows true 3 nd ls
  let b1 ← readBoxRows false 3 (3 - nd) b0.2
  let bb := b0.1 ++ b1.1
  let ls := b1.2
  let g (i j : Nat) : α := (bb.getD i []).getD j 0
  let xlo_bound := g 0 0; let xhi_bound := g 0 1; let xy := g 0 2
  let ylo_bound := g 1 0; let yhi_bound := g 1 1; let xz := g 1 2
  let zlo_bound := g 2 0; let zhi_bound := g 2 1; let yz := g 2 2
  let xlo := xlo_bound - min4 0 xy xz (xy + xz)
  let xhi := xhi_bound - max4 0 xy xz (xy + xz)
  let ylo := ylo_bound - pmin 0 yz
  let yhi := yhi_bound - pmax 0 yz
  let zlo := zlo_bound
  let zhi := zhi_bound
  let c : TricCell α := ⟨xlo, xhi, ylo, yhi, zlo, zhi, xhi - xlo, yhi - ylo, zhi - zlo, yz, xz, xy⟩
  let realbounds := [[xlo, xhi], [ylo, yhi], [zlo, zhi]]
  let reallength := ([c.h0, c.h1, c.h2] : List α).take nd
  let boxbounds := (bb.take nd).map fun r => r.take 2
  let hmatrix := ([[c.h0, 0, 0], [c.h5, c.h1, 0], [c.h4, c.h3, c.h2]] : List (List α)).take nd |>.map fun r => r.take nd
  let names := (readline ls).1.drop 2
  let ls := (readline ls).2
  let fin (r : Arrays α × Lines α) : Except Err (Option (Frame α × Lines α)) :=
    .ok (some (⟨ts, N, r.1.ptype, r.1.pos, reallength, boxbounds, some (realbounds.take nd), hmatrix⟩, r.2))
  if hasWord "x" names || hasWord "xu" names then do
    let r ← readAtoms nd N (sliceFloats nd) N ls (zeros nd N)
    fin r
  else if hasWord "xs" names then
    if nd = 3 ∨ nd = 2 ∨ N = 0 then do
      let r ← readAtoms nd N (scaledTric nd c) N ls (zeros nd N)
      fin r
    else .ok none      -- "cannot read for {ndim} dimensionality so far": `return None` (outside the claim: ndim ∉ {2,3})
  else fin (zeros nd N, ls)

/-- one call `read_lammps(f, ndim)`; `none` = Python `None` (EOF) -/
def readFrame (nd : Nat) : Lines α → Except Err (Option (Frame α × Lines α))
  | [] => .ok none
  | _ :: ls => do
      let ts ← pyInt (readline ls).1
      let ls := (readline ls).2
      let ls := (readline ls).2
      let n ← pyInt (readline ls).1
      let ls := (readline ls).2
      if n < 0 then .error .value          -- np.zeros((particle_number, ndim)) with a negative count
      else
        let hdr := (readline ls).1
        let ls := (readline ls).2
        if hasWord "xy" hdr then readTric nd ts n.toNat ls else readOrth nd ts n.toNat ls

/-- `read_lammps_wrapper`: `while True: snapshot = read_lammps(f, ndim); if not snapshot: break` -/
def readAllFuel (nd : Nat) : Nat → Lines α → Except Err (List (Frame α))
  | 0, _ => .ok []
  | fuel+1, ls => do
      match ← readFrame nd ls with
      | none => .ok []
      | some (fr, rest) => do
          let more ← readAllFuel nd fuel rest
          .ok (fr :: more)

/-- every successful `readFrame` consumes at least one line, so `length + 1` iterations reach EOF -/
def readAll (nd : Nat) (ls : Lines α) : Except Err (List (Frame α)) := readAllFuel nd (ls.length + 1) ls

end Impl

/-! ## Spec — the LAMMPS dump conventions -/

inductive Style where
  | x
  | xs
  | xu
  deriving DecidableEq, Repr

/-- one atom line: `id type c_0 … c_{ndim-1} extras…` -/
structure AtomSpec (α : Type) where
  id : Int
  type : Int
  c : Nat → α
  extras : Line α

/-- one frame as the simulation holds it: the REAL cell (origin `lo`, far corner `hi`, tilts), atoms in file order -/
structure FrameSpec (α : Type) where
  timestep : Int
  tric : Bool
  style : Style
  lo : Nat → α
  hi : Nat → α
  xy : α
  xz : α
  yz : α
  flags : List String
  extraNames : List String
  atoms : List (AtomSpec α)

namespace Spec

/-- wrapped coordinate of an orthogonal cell: moved by one box length into the box -/
def wrap (lo hi x : α) : α := if x < lo then x + (hi - lo) else if hi < x then x - (hi - lo) else x

/-- rows of the cell matrix: a = (lx,0,0), b = (xy,ly,0), c = (xz,yz,lz); tilts are zero for an orthogonal cell -/
def hmat (f : FrameSpec α) (i j : Nat) : α :=
  if i = j then f.hi i - f.lo i
  else if f.tric then
    (if i = 1 ∧ j = 0 then f.xy else if i = 2 ∧ j = 0 then f.xz else if i = 2 ∧ j = 1 then f.yz else 0)
  else 0

/-- LAMMPS bounding box of a triclinic cell: `xlo_bound = xlo + MIN(0,xy,xz,xy+xz)`, `ylo_bound = ylo + MIN(0,yz)` … -/
def bndLo (f : FrameSpec α) (i : Nat) : α :=
  if f.tric then
    (if i = 0 then f.lo 0 + min4 0 f.xy f.xz (f.xy + f.xz) else if i = 1 then f.lo 1 + pmin 0 f.yz else f.lo i)
  else f.lo i
def bndHi (f : FrameSpec α) (i : Nat) : α :=
  if f.tric then
    (if i = 0 then f.hi 0 + max4 0 f.xy f.xz (f.xy + f.xz) else if i = 1 then f.hi 1 + pmax 0 f.yz else f.hi i)
  else f.hi i

def coordName : Style → Nat → String
  | .x, 0 => "x" | .x, 1 => "y" | .x, _ => "z"
  | .xs, 0 => "xs" | .xs, 1 => "ys" | .xs, _ => "zs"
  | .xu, 0 => "xu" | .xu, 1 => "yu" | .xu, _ => "zu"

def atomLine (pr : α → Tok α) (nd : Nat) (a : AtomSpec α) : Line α :=
  [.int a.id, .int a.type] ++ ((List.range nd).map fun i => pr (a.c i)) ++ a.extras

/-- the nine header lines; all three box lines are written also for a 2-D run, as LAMMPS does -/
def header (pr : α → Tok α) (nd : Nat) (f : FrameSpec α) : Lines α :=
  [ [.word "ITEM:", .word "TIMESTEP"],
    [.int f.timestep],
    [.word "ITEM:", .word "NUMBER", .word "OF", .word "ATOMS"],
    [.int (f.atoms.length : Int)],
    ([.word "ITEM:", .word "BOX", .word "BOUNDS"] ++
      (if f.tric then [.word "xy", .word "xz", .word "yz"] else []) ++ f.flags.map .word) ] ++
  (if f.tric then
    [ [pr (bndLo f 0), pr (bndHi f 0), pr f.xy],
      [pr (bndLo f 1), pr (bndHi f 1), pr f.xz],
      [pr (bndLo f 2), pr (bndHi f 2), pr f.yz] ]
   else
    [ [pr (f.lo 0), pr (f.hi 0)], [pr (f.lo 1), pr (f.hi 1)], [pr (f.lo 2), pr (f.hi 2)] ]) ++
  [ [.word "ITEM:", .word "ATOMS", .word "id", .word "type"] ++
      ((List.range nd).map fun i => .word (coordName f.style i)) ++ f.extraNames.map .word ]

def emitFrame (pr : α → Tok α) (nd : Nat) (f : FrameSpec α) : Lines α :=
  header pr nd f ++ f.atoms.map (atomLine pr nd)

/-- the dump file of a trajectory; `pr` renders a number as a token (any right inverse of `float()`) -/
def emit (pr : α → Tok α) (nd : Nat) (fs : List (FrameSpec α)) : Lines α :=
  fs.flatMap (emitFrame pr nd)

/-- Cartesian coordinate `i` of an atom:
    scaled → `lo + Σ_j s_j h_j`; unwrapped → verbatim; wrapped → moved into an orthogonal box, verbatim in a triclinic one -/
def cart (nd : Nat) (f : FrameSpec α) (a : AtomSpec α) (i : Nat) : α :=
  match f.style with
  | .xs => f.lo i + sumRange nd fun j => a.c j * hmat f j i
  | .xu => a.c i
  | .x => if f.tric then a.c i else wrap (f.lo i) (f.hi i) (a.c i)

/-- the atom line carrying id `k+1` -/
def byId (atoms : List (AtomSpec α)) (k : Nat) : Option (AtomSpec α) :=
  atoms.find? fun a => a.id = (k : Int) + 1

/-- the value `g` of the atom line carrying id `k+1` (`d` if there is none — never the case for a well-formed frame) -/
def atId {β : Type} (atoms : List (AtomSpec α)) (k : Nat) (g : AtomSpec α → β) (d : β) : β :=
  match byId atoms k with
  | some a => g a
  | none => d

/-- the snapshot a frame must be read back as -/
def expected (nd : Nat) (f : FrameSpec α) : Frame α :=
  let N := f.atoms.length
  { timestep := f.timestep
    nparticle := N
    ptype := (List.range N).map fun k => atId f.atoms k (·.type) 0
    positions := (List.range N).map fun k =>
      atId f.atoms k (fun a => (List.range nd).map (cart nd f a)) (List.replicate nd 0)
    boxlength := (List.range nd).map fun i => f.hi i - f.lo i
    boxbounds := (List.range nd).map fun i => [bndLo f i, bndHi f i]
    realbounds := if f.tric then some ((List.range nd).map fun i => [f.lo i, f.hi i]) else none
    hmatrix := (List.range nd).map fun i => (List.range nd).map fun j => hmat f i j }

/-- well-formed frame description: ids are a permutation of 1..N; the boundary flags of an orthogonal header do not
spell a tilt; extra column names are not coordinate-style names -/
structure WF (f : FrameSpec α) : Prop where
  ids : (f.atoms.map (·.id)).Perm ((List.range f.atoms.length).map fun (k : Nat) => (k : Int) + 1)
  flags : "xy" ∉ f.flags
  names : "x" ∉ f.extraNames ∧ "xs" ∉ f.extraNames ∧ "xu" ∉ f.extraNames

end Spec
end Pms.Lammps
