import Pms.Model.Prelude
import Pms.Model.Pbc
import Pms.Gen.HessTab
/-!
Model of `PyMatterSim/static/hessians.py::HessianMatrix.diagonalize_hessian` (matrix assembly, frequencies) and
`static/vector.py::participation_ratio`.  Core only, operation-polymorphic.

Every *formula* of the source (six block entries and their placement, `dudr2j = -dudr2i`, the prefactor, the cutoff
test, the right-hand sides of the two assembly statements, `np.where(evals > 0, …)`) is NOT written here: it is a
field of `Prims α`, filled with the terms REGENERATED from the source (`Pms.GenR.Hess` over ℝ for the theorems,
`Pms.Gen.HessF` over `Float` for the compiled driver).  What is written by hand is the control structure: the
`for i … for j …` nest, the slice semantics of `+=` / `=`, and the data flow between the regenerated pieces; the
slice bounds are the regenerated `Pms.Gen.HessTab.index_*`.
-/
namespace Pms.Hess
open Pms

variable {α : Type}

/-- `H[r0:r1, c0:c1] += M` -/
def sliceAdd [Add α] (H : Nat → Nat → α) (r0 r1 c0 c1 : Nat) (M : Nat → Nat → α) : Nat → Nat → α :=
  fun p q => if r0 ≤ p ∧ p < r1 ∧ c0 ≤ q ∧ q < c1 then H p q + M (p - r0) (q - c0) else H p q

/-- `H[r0:r1, c0:c1] = M` -/
def sliceSet (H : Nat → Nat → α) (r0 r1 c0 c1 : Nat) (M : Nat → Nat → α) : Nat → Nat → α :=
  fun p q => if r0 ≤ p ∧ p < r1 ∧ c0 ≤ q ∧ q < c1 then M (p - r0) (q - c0) else H p q

/-- one pass of the loop body for the ordered pair (i, j): the two assembly statements, slice bounds regenerated -/
def step [Add α] (d : Nat) (cond : Nat → Nat → Bool) (rhs1 rhs2 : Nat → Nat → Nat → Nat → α)
    (H : Nat → Nat → α) (i j : Nat) : Nat → Nat → α :=
  if cond i j then
    let i0 := Gen.HessTab.index_i_0 i j d 0 0
    let j0 := Gen.HessTab.index_j_0 i j d i0 0
    let i1 := Gen.HessTab.index_i_1 i j d i0 j0
    let j1 := Gen.HessTab.index_j_1 i j d i0 j0
    sliceSet (sliceAdd H i0 i1 i0 i1 (rhs1 i j)) i0 i1 j0 j1 (rhs2 i j)
  else H

/-- `hessian_matrix = zeros; for i in range(n): for j in range(n): if cond: H[I,I] += rhs1; H[I,J] = rhs2` -/
def assemble [Add α] [OfNat α 0] (n d : Nat) (cond : Nat → Nat → Bool) (rhs1 rhs2 : Nat → Nat → Nat → Nat → α) :
    Nat → Nat → α :=
  foldRange n (fun H i => foldRange n (fun H j => step d cond rhs1 rhs2 H i j) H) (fun _ _ => 0)

/-- the regenerated (or library) primitives the routine is built from -/
structure Prims (α : Type) where
  /-- `np.sqrt` / the square root inside `np.linalg.norm` -/
  sqrt : α → α
  ofNat : Nat → α
  blk2 : α → α → α → α → α → α → α → Nat → Nat → α
  blk3 : α → α → α → α → α → α → α → Nat → Nat → α
  zDefault : α
  dudr2j : α → α
  prefactor : (Nat → α) → Nat → Nat → α
  cond : Nat → Nat → (Nat → α) → (Nat → Nat → α) → Nat → Nat → Bool
  asm1 : α → α → (Nat → Nat → α) → (Nat → α) → Nat → Nat → α
  asm2 : α → α → (Nat → Nat → α) → (Nat → α) → Nat → Nat → α
  /-- `PairInteractions(r, epsilon, sigma, r_c, shift).caller(interaction_params)` = `[s1, s1rc, s2]` -/
  caller : α → α → α → α → α × α × α
  frequencies : α → α

/-- the inputs of `HessianMatrix` after `remove_pbc`: `disp i j k = remove_pbc(positions[i] - positions)[j][k]` -/
structure Sys (α : Type) where
  n : Nat
  d : Nat
  /-- 1-based particle type, as stored in the snapshot -/
  ptype : Nat → Nat
  /-- keyed by the 1-based type, as the `masses` dict -/
  masses : Nat → α
  eps : Nat → Nat → α
  sig : Nat → Nat → α
  rcut : Nat → Nat → α
  disp : Nat → Nat → Nat → α

/-- `RJI = remove_pbc(positions[i] - positions, hmatrix, ppp)` (model of C02) -/
def dispOf [Add α] [Sub α] [Mul α] [OfNat α 0] [IntCast α] (d : Nat) (rint : α → Int) (H Hinv : Nat → Nat → α)
    (ppp : Nat → α) (pos : Nat → Nat → α) : Nat → Nat → Nat → α :=
  fun i j => Pbc.removePbc d rint H Hinv ppp (fun k => pos i k - pos j k)

section
variable [Add α] [Sub α] [Mul α] [Div α] [Neg α] [OfNat α 0] [OfNat α 1]

/-- `int(particle_type[i] - 1)` -/
def tIdx (S : Sys α) (i : Nat) : Nat := S.ptype i - 1

/-- squared pair distance -/
def dist2 (S : Sys α) (i j : Nat) : α := sumRange S.d fun k => S.disp i j k * S.disp i j k

/-- `np.linalg.norm(RJI, axis=1)[j]` -/
def dist (P : Prims α) (S : Sys α) (i j : Nat) : α := P.sqrt (dist2 S i j)

/-- `[s1, s1rc, s2]` of the pair -/
def derivs (P : Prims α) (S : Sys α) (i j : Nat) : α × α × α :=
  P.caller (dist P S i j) (S.eps (tIdx S i) (tIdx S j)) (S.sig (tIdx S i) (tIdx S j)) (S.rcut (tIdx S i) (tIdx S j))

/-- `pair_matrix(RJI[j], dudrs)[0]`: `x, y = Rji` (z = 0) when ndim = 2, `x, y, z = Rji` otherwise -/
def block (P : Prims α) (S : Sys α) (i j a b : Nat) : α :=
  let r := dist P S i j
  let t := derivs P S i j
  if S.d = 2 then P.blk2 (S.disp i j 0) (S.disp i j 1) P.zDefault r t.1 t.2.1 t.2.2 a b
  else P.blk3 (S.disp i j 0) (S.disp i j 1) (S.disp i j 2) r t.1 t.2.1 t.2.2 a b

/-- the loop's test for the ordered pair (i, j) -/
def inCut (P : Prims α) (S : Sys α) (i j : Nat) : Bool :=
  P.cond i j (fun j => dist P S i j) S.rcut (tIdx S i) (tIdx S j)

/-- right-hand side of the `+=` statement, entry (a, b) -/
def rhs1 (P : Prims α) (S : Sys α) (i j a b : Nat) : α :=
  P.asm1 (block P S i j a b) (P.dudr2j (block P S i j a b)) (P.prefactor S.masses) S.masses (tIdx S i) (tIdx S j)

/-- right-hand side of the `=` statement, entry (a, b) -/
def rhs2 (P : Prims α) (S : Sys α) (i j a b : Nat) : α :=
  P.asm2 (block P S i j a b) (P.dudr2j (block P S i j a b)) (P.prefactor S.masses) S.masses (tIdx S i) (tIdx S j)

/-- Impl: the saved `hessian_matrix` -/
def hessian (P : Prims α) (S : Sys α) : Nat → Nat → α :=
  assemble S.n S.d (inCut P S) (rhs1 P S) (rhs2 P S)

/-- Impl: `participation_ratio(vector)`, vector of shape [n, d]:
`value_PR = 1.0 / (np.sum(np.square((vector*vector).sum(axis=1))) * n);  value_PR *= np.square((vector*vector).sum())` -/
def pr (ofNat : Nat → α) (n d : Nat) (v : Nat → Nat → α) : α :=
  let rowsq : Nat → α := fun i => sumRange d fun k => v i k * v i k
  let value : α := 1 / (sumRange n (fun i => rowsq i * rowsq i) * ofNat n)
  let tot : α := sumRange n fun i => rowsq i
  value * (tot * tot)

/-! ### Spec: the mass-weighted second derivative, as the property states it -/

/-- plain Hessian of `U = Σ_{pairs in cutoff} φ_ij(r_i − r_j)` in terms of the pair blocks `B i j a b = ∂_a∂_b φ_ij`:
`∂²U/∂r_iα∂r_jβ = −B_ij(α,β)` for i ≠ j in cutoff, `∂²U/∂r_iα∂r_iβ = Σ_{k≠i in cutoff} B_ik(α,β)` -/
def specH (n : Nat) (cut : Nat → Nat → Bool) (B : Nat → Nat → Nat → Nat → α) (i a j b : Nat) : α :=
  if i = j then sumRange n fun k => if k ≠ i ∧ cut i k then B i k a b else 0
  else if cut i j then - B i j a b else 0

/-- `D = M^{-1/2} H M^{-1/2}`: entry divided by `√m_i · √m_j` -/
def specD (sqrt : α → α) (n : Nat) (m : Nat → α) (cut : Nat → Nat → Bool) (B : Nat → Nat → Nat → Nat → α)
    (i a j b : Nat) : α :=
  specH n cut B i a j b / (sqrt (m i) * sqrt (m j))

end
end Pms.Hess
