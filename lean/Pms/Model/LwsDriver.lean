-- DRIVER: lws Pms.LwsDriver.handle
import Pms.Model.Io
import Pms.Model.Lws
import Pms.Gen.ExtraF
/-! Driver op for `LineWithinSquare` (EXTRA): the regenerated chain with `Float.atan2`, the point from the regenerated
`lines_intersection` terms. -/
namespace Pms.LwsDriver
open Pms.Io Pms.Lws

/-- `lws P1x P1y P2x P2y P3x P3y P4x P4y R0x R0y vx vy` (float bits) → `x y px py` (edge corner indices, point as bits) -/
def handle (toks : List String) : Option String := do
  let v ← toks.mapM parseFloatBits
  if v.length ≠ 12 then none
  let a := v.toArray
  let P : Nat → Nat → Float := fun k c => a.getD (2 * k + c) 0
  let R0 : Nat → Float := fun c => a.getD (8 + c) 0
  let vec : Nat → Float := fun c => a.getD (10 + c) 0
  let e := edgeOf Float.atan2 Pms.Gen.Lws.branches Pms.Gen.Lws.elseEdge P R0 vec
  let (x1, y1, x2, y2) := (P e.1 0, P e.1 1, P e.2 0, P e.2 1)
  let (x3, y3, x4, y4) := (R0 0, R0 1, R0 0 - vec 0, R0 1 - vec 1)
  let d := Pms.Gen.ExtraF.li_D x1 y1 x2 y2 x3 y3 x4 y4
  pure s!"{e.1} {e.2} {showFloat (Pms.Gen.ExtraF.li_PxNum x1 y1 x2 y2 x3 y3 x4 y4 / d)} {showFloat (Pms.Gen.ExtraF.li_PyNum x1 y1 x2 y2 x3 y3 x4 y4 / d)}"

end Pms.LwsDriver
