-- DRIVER: wavex Pms.WaveXDriver.handle
import Pms.Model.Io
import Pms.Gen.WaveX
/-! Driver operations for the other routines of utils/wavevector.py (EXTRA). -/
namespace Pms.WaveXDriver
open Pms.Io Pms.Wave Pms.WaveX

def showRows (rows : List (List Int)) : String :=
  s!"{rows.length} " ++ ";".intercalate (rows.map fun r => ",".intercalate (r.map fun (x : Int) => s!"{x}"))

/-- `wavex sq <impl|spec> <routine name> <numofq>` → `nrows r;r;…` | `error` | `no-routine`
    `wavex cont <impl|spec> <ndim> <numofq> <0|1>` → `nrows r;r;…` | `error` -/
def handle (toks : List String) : Option String := do
  match toks with
  | ["sq", mode, name, n] =>
    let n ← parseNatDigits n
    match Pms.Gen.WaveX.tables.find? (fun T => T.name == name) with
    | none => pure "no-routine"
    | some T =>
      if mode == "spec" then pure (showRows (T.spec n))
      else match T.run n with
        | none => pure "error"
        | some rows => pure (showRows rows)
  | ["cont", mode, d, n, p] =>
    let d ← parseNatDigits d
    let n ← parseNatDigits n
    let pos := p == "1"
    if mode == "spec" then pure (showRows (contSpec Pms.Gen.WaveX.contBranches d n pos))
    else match contImpl Pms.Gen.WaveX.contBranches d n pos with
      | none => pure "error"
      | some rows => pure (showRows rows)
  | _ => none

end Pms.WaveXDriver
